"""Reference model of the event monitor, from the text of C13."""


class MonitorModel:
    def __init__(self, triggers):
        self.triggers = list(triggers)      # "level" | "rise" | "fall" per bit
        self.n = len(self.triggers)
        self.prev = [0] * self.n            # previous cycle's input, initially low
        self.pending = 0

    def trg(self, levels):
        """Trigger outputs for this cycle (combinational in the current inputs)."""
        m = 0
        for i, tr in enumerate(self.triggers):
            lv = (levels >> i) & 1
            if tr == "level":
                x = lv
            elif tr == "rise":
                x = int((not self.prev[i]) and lv)
            else:
                x = int(self.prev[i] and not lv)
            m |= x << i
        return m

    def step(self, levels, clear):
        """Advance one clock edge. A simultaneous trigger wins over a clear."""
        trg = self.trg(levels)
        self.pending = (self.pending | trg) & ~(clear & ~trg) & ((1 << self.n) - 1)
        self.prev = [(levels >> i) & 1 for i in range(self.n)]
        return trg
