"""Ideal CSR register file + protocol conformance tracker (DESIGN §1.2).

Written from the text of C04/C05, not from the implementation:
  * unconditional (all inputs): a readable register sees r_stb exactly in cycles where its first
    address is read; bus read data is zero in every cycle that does not follow a read of a chunk
    of a readable register; a writable register sees w_stb exactly one cycle after a write to its
    last address.
  * conditional (protocol-following transaction: one register at a time, ascending addresses,
    possibly abandoned, idle gaps allowed): read data = slice of the value presented when the
    first chunk was read; write data at the strobe = the chunks written in this transaction.
    A write to an unmapped address or to a register that is not writable "has no effect on any
    register" (C05): it does not disturb an open write transaction either (it does close the read
    side, about which nothing of the kind is promised).
    The reads of a transaction ascend strictly, so do its writes, and the addresses of all its
    accesses together never descend: a read and a write of the same chunk may share a cycle or
    follow each other in either order (the read and the write of one register woven together).
The tracker decides what is "protocol-following"; whatever it does not accept is left unchecked.
"""


class RegSpec:
    __slots__ = ("idx", "start", "end", "width", "readable", "writable")

    def __init__(self, idx, start, end, width, readable, writable):
        self.idx = idx
        self.start = start
        self.end = end
        self.width = width
        self.readable = readable
        self.writable = writable


class Expect:
    __slots__ = ("r_stb", "next_r", "next_w", "hit", "txn_start", "snapshot_taken")

    def __init__(self):
        self.r_stb = {}        # idx -> 0/1, this cycle (readable registers only)
        self.next_r = ("exact", 0)   # bus.r_data next cycle: ("exact", v) or ("any", None)
        self.next_w = {}       # idx -> chunks dict or None (strobe expected next cycle)
        self.hit = None
        self.txn_start = False
        self.snapshot_taken = False


class RegFile:
    def __init__(self, data_width, regs):
        self.dw = data_width
        self.regs = list(regs)
        self.by_addr = {}
        for r in self.regs:
            for a in range(r.start, r.end):
                assert a not in self.by_addr
                self.by_addr[a] = r
        self.cur = None      # register index of the open transaction
        self.last = None     # last (highest) address accessed in it
        self.last_r = None   # last address read / written in it
        self.last_w = None
        self.snap = None     # snapshot value (None: first chunk was not read in this transaction)
        self.wbuf = {}       # chunk offset -> value written in this transaction
        self.first_of_txn = False

    def _break(self):
        self.cur = None
        self.snap = None
        self.wbuf = {}

    def step(self, addr, r_stb, w_stb, w_data, r_vals):
        """r_vals: idx -> value the register presents on element.r_data in this cycle."""
        e = Expect()
        mask = (1 << self.dw) - 1
        hit = self.by_addr.get(addr) if (r_stb or w_stb) else None
        e.hit = hit
        if w_stb and not r_stb and (hit is None or not hit.writable):
            # ignored write: the write transaction in progress (if any) is untouched
            self.snap = None
            self.last_r = None
        elif r_stb or w_stb:
            if hit is None:
                self._break()
            else:
                cont = self.cur == hit.idx and addr >= self.last and \
                    not (r_stb and self.last_r is not None and addr <= self.last_r) and \
                    not (w_stb and self.last_w is not None and addr <= self.last_w)
                if cont:
                    self.last = addr
                elif addr == hit.start:
                    self.cur = hit.idx
                    self.last = addr
                    self.last_r = self.last_w = None
                    self.snap = None
                    self.wbuf = {}
                    e.txn_start = True
                else:
                    self._break()
                if self.cur is not None:
                    if r_stb:
                        self.last_r = addr
                    if w_stb:
                        self.last_w = addr
        for r in self.regs:
            if r.readable:
                e.r_stb[r.idx] = 1 if (r_stb and addr == r.start) else 0
        if r_stb and hit is not None and hit.readable:
            if addr == hit.start:
                self.snap = r_vals[hit.idx] & ((1 << hit.width) - 1)
                e.snapshot_taken = True
            if self.cur == hit.idx and self.snap is not None:
                e.next_r = ("exact", (self.snap >> ((addr - hit.start) * self.dw)) & mask)
            else:
                e.next_r = ("any", None)
        if w_stb and hit is not None and hit.writable:
            if self.cur == hit.idx:
                self.wbuf[addr - hit.start] = w_data & mask
            if addr == hit.end - 1:
                e.next_w[hit.idx] = dict(self.wbuf) if self.cur == hit.idx else None
        return e

    def complete_value(self, spec, chunks):
        """Full register value if every chunk covering the register width was written in the
        transaction, else None."""
        n = (spec.width + self.dw - 1) // self.dw
        v = 0
        for k in range(n):
            if k not in chunks:
                return None
            v |= chunks[k] << (k * self.dw)
        return v & ((1 << spec.width) - 1)


def expand_csr_ops(ops, regs, addr_width, data_width, garbage):
    """Open-loop CSR initiator: op list -> per-cycle (addr, r_stb, w_stb, w_data, tag).

    Total: any op list is valid. `regs` is a list of (start, end); register indices are taken
    modulo len(regs); chunk counts are clamped. `garbage(t, bits)` supplies don't-care values for
    idle cycles (address lines are not required to be quiet)."""
    cyc = []
    amask = (1 << addr_width) - 1
    dmask = (1 << data_width) - 1

    def idle(n, tag):
        for _ in range(n):
            t = len(cyc)
            cyc.append((garbage(t, addr_width), 0, 0, garbage(t + 7919, data_width), tag))

    for op in ops:
        k = op.get("k")
        if k == "idle":
            idle(max(1, min(int(op.get("n", 1)), 8)), "idle")
        elif k == "raw":
            cyc.append((int(op.get("addr", 0)) & amask, int(bool(op.get("r", 0))),
                        int(bool(op.get("w", 0))), int(op.get("data", 0)) & dmask, "raw"))
        elif k == "reset":
            # one idle cycle during which the world resets the clock domain
            t = len(cyc)
            cyc.append((garbage(t, addr_width), 0, 0, garbage(t + 7919, data_width), "reset"))
        elif k == "txn":
            if not regs:
                idle(1, "idle")
                continue
            start, end = regs[int(op.get("reg", 0)) % len(regs)]
            size = end - start
            n = size if op.get("n") is None else 1 + int(op["n"]) % size
            mode = op.get("mode", "r")
            gaps = op.get("gaps") or []
            data = op.get("data") or []
            pokes = op.get("pokes") or {}
            for j in range(n):
                g = int(gaps[j]) if j < len(gaps) else 0
                if g > 0:
                    idle(g if 200 <= g <= 400 else min(g, 4), "gap")
                if str(j) in pokes and j > 0:
                    # a stray write to some other address between two chunks (it is ignored if
                    # that address is unmapped or not writable - the tracker decides)
                    t = len(cyc)
                    cyc.append((int(pokes[str(j)]) & amask, 0, 1, garbage(t + 4242, data_width) | 1,
                                "poke"))
                d = int(data[j]) & dmask if j < len(data) else 0
                cyc.append((start + j, int(mode in ("r", "rw")), int(mode in ("w", "rw")), d,
                            "txn" if n == size else "txn-abort"))
        elif k == "weave":
            # a read and a write transaction on one register woven together: per chunk the
            # two accesses share a cycle (0), read first (1) or write first (2); either may stop
            # early (abandoned)
            if not regs:
                idle(1, "idle")
                continue
            start, end = regs[int(op.get("reg", 0)) % len(regs)]
            size = end - start
            rn = 1 + int(op.get("rn", 0)) % size
            wn = 1 + int(op.get("wn", 0)) % size
            order = op.get("ord") or []
            gaps = op.get("gaps") or []
            data = op.get("data") or []
            for j in range(max(rn, wn)):
                g = int(gaps[j]) if j < len(gaps) else 0
                if g > 0:
                    idle(min(g, 4), "gap")
                d = int(data[j]) & dmask if j < len(data) else 0
                o = int(order[j]) % 3 if j < len(order) else 0
                do_r, do_w = j < rn, j < wn
                if do_r and do_w and o == 0:
                    cyc.append((start + j, 1, 1, d, "weave"))
                else:
                    seq = [("r", do_r), ("w", do_w)]
                    if o == 2:
                        seq.reverse()
                    for which, do in seq:
                        if do:
                            cyc.append((start + j, int(which == "r"), int(which == "w"), d, "weave"))
        else:
            idle(1, "idle")
    return cyc
