#!/venv/bin/python
"""Determinism proof: every property's runs are re-executed in fresh interpreters under different
PYTHONHASHSEED values and worker counts; the per-run (config, ops, history) digests must be
identical. usage: selftest/determinism.py [runs-per-property] [PROP ...]"""
import os
import subprocess
import sys

VERIF = os.path.dirname(os.path.dirname(os.path.abspath(__file__)))
ALL = [f"C{n:02d}" for n in range(1, 21)]


def digests(prop, runs, hashseed, jobs, verif_seed):
    env = dict(os.environ, PYTHONHASHSEED=str(hashseed), VERIF_SEED=str(verif_seed))
    out = subprocess.run([os.path.join(VERIF, "check"), prop, "--digests", "--runs", str(runs),
                          "--jobs", str(jobs)], env=env, cwd=VERIF, capture_output=True, text=True,
                         timeout=1800)
    if out.returncode != 0:
        raise SystemExit(f"{prop}: digest run failed: {out.stderr[-2000:]}")
    return out.stdout.splitlines()


def main():
    runs = int(sys.argv[1]) if len(sys.argv) > 1 else 200
    props = sys.argv[2:] or ALL
    bad = 0
    for prop in props:
        n = runs if prop != "C01" else max(16, runs // 8)
        base = digests(prop, n, 0, 16, 7)
        for hs, jobs in ((12345, 1), (1, 16), (987654321, 5)):
            other = digests(prop, n, hs, jobs, 7)
            diff = [(a, b) for a, b in zip(base, other) if a != b]
            if diff or len(base) != len(other):
                bad += 1
                print(f"{prop}: NON-DETERMINISTIC under PYTHONHASHSEED={hs} jobs={jobs}: "
                      f"{len(diff)} of {len(base)} runs differ; first: {diff[:1]}")
        print(f"{prop}: {len(base)} runs x 4 (hash seeds 0/12345/1/987654321, workers 16/1/16/5): "
              f"{'IDENTICAL' if not bad else 'see above'}")
    return 1 if bad else 0


if __name__ == "__main__":
    sys.exit(main())
