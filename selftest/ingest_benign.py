#!/venv/bin/python
"""File a behaviour-preserving refactoring produced by a sub-agent as a benign patch.

usage: selftest/ingest_benign.py <dir with patch.diff equiv.py notes.md> <name>
In a scratch copy of /repo (outside /repo and /verif, removed afterwards): the patch applies, the
repo's 290 tests pass with it, and the agent's own differential test (equiv.py, original vs
refactored) passes. Then the patch is stored as selftest/benign/<name>.diff (+ .notes.md); the
checks are run against it by tools/sensitivity_report.py benign:<name> --cross."""
import os
import shutil
import subprocess
import sys
import tempfile

VERIF = os.path.dirname(os.path.dirname(os.path.abspath(__file__)))


def main():
    src, name = sys.argv[1], sys.argv[2]
    tmp = tempfile.mkdtemp(prefix="verif-benign-", dir="/tmp")
    try:
        rp = os.path.join(tmp, "repo")
        os.makedirs(rp)
        for item in ("amaranth_soc", "tests", "pyproject.toml"):
            s = os.path.join("/repo", item)
            if os.path.isdir(s):
                shutil.copytree(s, os.path.join(rp, item), ignore=shutil.ignore_patterns("__pycache__"))
            else:
                shutil.copy(s, rp)
        r = subprocess.run(["patch", "-p1", "-s", "-d", rp, "-i", os.path.join(src, "patch.diff")],
                           capture_output=True, text=True)
        if r.returncode:
            print(f"{name}: patch does not apply: {r.stdout[-200:]}")
            return 1
        env = dict(os.environ, PYTHONPATH=rp, REPO=rp)
        t = subprocess.run(["/venv/bin/python", "-m", "pytest", "-q", "-x", "-p", "no:cacheprovider",
                            "--timeout=120", "tests"], cwd=rp, capture_output=True, text=True, env=env)
        tests = t.stdout.strip().splitlines()[-1] if t.stdout.strip() else "?"
        if t.returncode:
            print(f"{name}: repo tests fail: {tests}")
            return 1
        eq = "no equiv.py"
        if os.path.exists(os.path.join(src, "equiv.py")):
            try:
                e = subprocess.run(["/venv/bin/python", os.path.join(src, "equiv.py")], cwd=src,
                                   capture_output=True, text=True, env=dict(os.environ, REPO=rp),
                                   timeout=1800)
                eq = f"exit={e.returncode} {(e.stdout + e.stderr).strip().splitlines()[-1][:120] if (e.stdout + e.stderr).strip() else ''}"
                if e.returncode:
                    print(f"{name}: equiv.py fails: {eq}")
                    return 1
            except subprocess.TimeoutExpired:
                eq = "timeout"
        dst = os.path.join(VERIF, "selftest", "benign")
        shutil.copy(os.path.join(src, "patch.diff"), os.path.join(dst, name + ".diff"))
        with open(os.path.join(dst, name + ".notes.md"), "w") as f:
            if os.path.exists(os.path.join(src, "notes.md")):
                f.write(open(os.path.join(src, "notes.md")).read().rstrip() + "\n\n")
            f.write(f"ingest: tests {tests}; agent's differential test: {eq}\n")
        print(f"{name}: filed (tests {tests}; equiv {eq})")
        return 0
    finally:
        shutil.rmtree(tmp, ignore_errors=True)


if __name__ == "__main__":
    sys.exit(main())
