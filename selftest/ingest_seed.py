#!/venv/bin/python
"""Verify and file a seeded change produced by a sub-agent.

usage: selftest/ingest_seed.py <dir with patch.diff demo.py notes.md> <seed id> <PROP> [--checks C04,C05|all]
Steps (all in a scratch copy of /repo outside /repo and /verif, removed afterwards):
  1. demo.py passes against the unchanged /repo;  2. the patch applies;  3. the repo's test suite
  passes with it;  4. demo.py fails with it;  5. the listed checks are run against the patched copy.
Writes /verif/seeded/<id>/{patch.diff,demo.py,notes.md,meta.json}."""
import argparse
import json
import os
import shutil
import subprocess
import sys
import tempfile
import time

VERIF = os.path.dirname(os.path.dirname(os.path.abspath(__file__)))
ALL = [f"C{n:02d}" for n in range(1, 21)]


def sh(cmd, **kw):
    return subprocess.run(cmd, capture_output=True, text=True, **kw)


def main():
    ap = argparse.ArgumentParser()
    ap.add_argument("src")
    ap.add_argument("seed_id")
    ap.add_argument("prop")
    ap.add_argument("--checks", default=None)
    ap.add_argument("--tier", default="quick")
    args = ap.parse_args()
    checks = ALL if args.checks == "all" else (args.checks.split(",") if args.checks else [args.prop])
    dst = os.path.join(VERIF, "seeded", args.seed_id)
    os.makedirs(dst, exist_ok=True)
    for f in ("patch.diff", "demo.py", "notes.md"):
        if os.path.exists(os.path.join(args.src, f)) and \
                os.path.realpath(args.src) != os.path.realpath(dst):
            shutil.copy(os.path.join(args.src, f), dst)
    meta_path = os.path.join(dst, "meta.json")
    meta = json.load(open(meta_path)) if os.path.exists(meta_path) else {}
    meta.update({"id": args.seed_id, "breaks_property": args.prop,
                 "repo_head": sh(["git", "-C", "/repo", "rev-parse", "--short", "HEAD"]).stdout.strip()})
    tmp = tempfile.mkdtemp(prefix="verif-seed-", dir="/tmp")
    try:
        rp = os.path.join(tmp, "repo")
        os.makedirs(rp)
        for item in ("amaranth_soc", "tests", "pyproject.toml"):
            s = os.path.join("/repo", item)
            if os.path.isdir(s):
                shutil.copytree(s, os.path.join(rp, item), ignore=shutil.ignore_patterns("__pycache__"))
            else:
                shutil.copy(s, rp)
        demo = os.path.join(dst, "demo.py")
        r0 = sh(["/venv/bin/python", demo], env=dict(os.environ, REPO="/repo"), timeout=600)
        meta["demo_on_unchanged_repo"] = {"exit": r0.returncode, "tail": (r0.stdout + r0.stderr)[-300:]}
        ap_ = sh(["patch", "-p1", "-s", "-d", rp, "-i", os.path.join(dst, "patch.diff")])
        meta["patch_applies"] = ap_.returncode == 0
        if ap_.returncode:
            meta["patch_error"] = (ap_.stdout + ap_.stderr)[-500:]
        t = sh(["/venv/bin/python", "-m", "pytest", "-q", "-p", "no:cacheprovider", "--timeout=300",
                "tests"], cwd=rp, env=dict(os.environ, PYTHONPATH=rp), timeout=1800)
        last = t.stdout.strip().splitlines()[-1] if t.stdout.strip() else t.stderr[-200:]
        meta["repo_tests_with_patch"] = last
        r1 = sh(["/venv/bin/python", demo], env=dict(os.environ, REPO=rp), timeout=600)
        meta["demo_with_patch"] = {"exit": r1.returncode, "tail": (r1.stdout + r1.stderr)[-400:]}
        meta["confirmed"] = bool(r0.returncode == 0 and meta["patch_applies"] and " failed" not in last
                                 and "passed" in last and r1.returncode != 0)
        results = meta.setdefault("checks", {})
        for c in checks:
            t0 = time.time()
            cr = sh([os.path.join(VERIF, "check"), c, "--tier", args.tier], cwd=VERIF,
                    env=dict(os.environ, VERIF_REPO=rp), timeout=7200)
            viol = [l for l in cr.stdout.splitlines() if l.startswith("violation:")]
            results[f"{c}:{args.tier}"] = {"exit": cr.returncode, "wall_s": round(time.time() - t0, 1),
                                           "violations": [v[:400] for v in viol[:3]]}
            print(f"  [{c} {args.tier}] exit={cr.returncode} {viol[0][:200] if viol else ''}")
            if cr.returncode not in (0, 1):
                print(cr.stderr[-800:])
        meta["caught_by"] = sorted({k for k, v in results.items() if v["exit"] == 1})
        meta["what_i_ran"] = ("selftest/ingest_seed.py: demo on unchanged /repo, patch applied to a "
                              "scratch copy under /tmp, full repo test suite there, demo against the "
                              "copy, then ./check <PROP> with VERIF_REPO pointing at the copy")
        notes = os.path.join(dst, "notes.md")
        if os.path.exists(notes):
            meta["needs_to_manifest"] = open(notes).read()[:1500]
    finally:
        shutil.rmtree(tmp, ignore_errors=True)
    json.dump(meta, open(meta_path, "w"), indent=1, sort_keys=True)
    print(f"{args.seed_id}: confirmed={meta['confirmed']} tests='{meta['repo_tests_with_patch']}' "
          f"caught_by={meta['caught_by']}")
    return 0


if __name__ == "__main__":
    sys.exit(main())
