#!/venv/bin/python
"""Create a mutant patch: selftest/mkmut.py <name> <file relative to repo> <<< 'OLD\n=====\nNEW'"""
import difflib
import sys

name, rel = sys.argv[1], sys.argv[2]
old, new = sys.stdin.read().split("\n=====\n")
new = new.rstrip("\n")
old = old.rstrip("\n")
src = open(f"/repo/{rel}").read()
if src.count(old) != 1:
    sys.exit(f"pattern occurs {src.count(old)} times")
dst = src.replace(old, new)
diff = difflib.unified_diff(src.splitlines(True), dst.splitlines(True), f"a/{rel}", f"b/{rel}")
open(f"/verif/selftest/mutants/{name}.diff", "w").write("".join(diff))
print("wrote", name)
