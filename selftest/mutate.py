#!/venv/bin/python
"""Sensitivity / specificity self-test: apply a patch to a scratch copy of /repo (outside /repo
and /verif), run checks against it through VERIF_REPO, delete the copy.

usage: selftest/mutate.py <patch> <PROP>[,<PROP>...] [--runs N] [--tests]
Exit 0 if at least one listed check reports a VIOLATION (mutant caught), 1 otherwise.
With --expect-clean: exit 0 iff every listed check exits 0 (benign refactor)."""
import argparse
import os
import shutil
import subprocess
import sys
import tempfile

VERIF = os.path.dirname(os.path.dirname(os.path.abspath(__file__)))


def main():
    ap = argparse.ArgumentParser()
    ap.add_argument("patch")
    ap.add_argument("props")
    ap.add_argument("--runs", default=None)
    ap.add_argument("--tests", action="store_true", help="also run the repo's test suite")
    ap.add_argument("--expect-clean", action="store_true")
    ap.add_argument("--repo", default="/repo")
    args = ap.parse_args()
    tmp = tempfile.mkdtemp(prefix="verif-mut-", dir=os.environ.get("VERIF_SCRATCH", "/tmp"))
    try:
        dst = os.path.join(tmp, "repo")
        os.makedirs(dst)
        for item in ("amaranth_soc", "tests", "pyproject.toml"):
            src = os.path.join(args.repo, item)
            if os.path.isdir(src):
                shutil.copytree(src, os.path.join(dst, item),
                                ignore=shutil.ignore_patterns("__pycache__"))
            else:
                shutil.copy(src, dst)
        r = subprocess.run(["patch", "-p1", "-s", "-d", dst, "-i", os.path.abspath(args.patch)])
        if r.returncode:
            print("PATCH FAILED")
            return 2
        env = dict(os.environ, VERIF_REPO=dst)
        if args.runs:
            env["VERIF_RUNS"] = args.runs
        if args.tests:
            t = subprocess.run(["/venv/bin/python", "-m", "pytest", "-q", "-x", "-p",
                                "no:cacheprovider", "--timeout=120", "tests"], cwd=dst,
                               env=dict(env, PYTHONPATH=dst), capture_output=True, text=True)
            print("repo tests:", t.stdout.strip().splitlines()[-1] if t.stdout.strip() else t.stderr[-300:])
        caught = []
        codes = {}
        for prop in args.props.split(","):
            c = subprocess.run([os.path.join(VERIF, "check"), prop], env=env, cwd=VERIF,
                               capture_output=True, text=True)
            codes[prop] = c.returncode
            lines = [l for l in c.stdout.splitlines()
                     if l.startswith(("VIOLATION", "violation:", "KNOWN-FINDING", "done:"))]
            print(f"[{prop}] exit={c.returncode}")
            for l in lines[:6]:
                print("   ", l[:300])
            if c.returncode not in (0, 1):
                print(c.stderr[-1500:])
            if c.returncode == 1:
                caught.append(prop)
        # replay files written against the mutant are of no use afterwards
        if args.expect_clean:
            ok = all(v == 0 for v in codes.values())
            print("CLEAN" if ok else "FALSE ALARM", os.path.basename(args.patch))
            return 0 if ok else 1
        print(("CAUGHT by " + ",".join(caught)) if caught else "MISSED", os.path.basename(args.patch))
        return 0 if caught else 1
    finally:
        shutil.rmtree(tmp, ignore_errors=True)


if __name__ == "__main__":
    sys.exit(main())
