#!/venv/bin/python
"""Automatic mutation campaign: single-point AST mutants of amaranth_soc/*.py are applied to
scratch copies (outside /repo and /verif); mutants that the repository's own 290 tests do NOT kill
are then given to the checks. Output: selftest/mutation_campaign.json + a summary.

usage: selftest/mutation_campaign.py [--files memory.py,csr/bus.py] [--max N] [--runs N] [--jobs N]
"""
import argparse
import ast
import concurrent.futures as cf
import copy
import json
import os
import shutil
import subprocess
import sys
import tempfile

VERIF = os.path.dirname(os.path.dirname(os.path.abspath(__file__)))
FILE_CHECKS = {
    "memory.py": ["C02", "C03", "C18", "C17", "C06", "C07"],
    "csr/bus.py": ["C04", "C05", "C06", "C20", "C19"],
    "csr/reg.py": ["C11", "C17", "C12", "C20", "C19"],
    "csr/action.py": ["C12", "C19"],
    "csr/event.py": ["C14", "C19", "C20"],
    "event.py": ["C13", "C14", "C20"],
    "csr/wishbone.py": ["C10", "C19", "C20"],
    "wishbone/bus.py": ["C07", "C08", "C09", "C20", "C19"],
    "wishbone/sram.py": ["C15", "C19", "C20"],
    "gpio.py": ["C16", "C20", "C19"],
}
LAST_RESORT = ["C01"]


class Sites(ast.NodeVisitor):
    """Enumerate mutation sites; nodes under `raise`, inside f-strings, docstrings and __repr__ are
    skipped (messages are not behaviour)."""
    def __init__(self):
        self.sites = []
        self.skip = 0

    def generic_visit(self, node):
        skip_here = isinstance(node, (ast.Raise, ast.JoinedStr, ast.Assert)) or \
            (isinstance(node, ast.FunctionDef) and node.name in ("__repr__",))
        if skip_here:
            self.skip += 1
        if not self.skip:
            self.consider(node)
        super().generic_visit(node)
        if skip_here:
            self.skip -= 1

    def consider(self, node):
        if isinstance(node, ast.Compare) and len(node.ops) == 1:
            op = type(node.ops[0])
            swaps = {ast.Eq: [ast.NotEq], ast.NotEq: [ast.Eq], ast.Lt: [ast.LtE, ast.GtE],
                     ast.LtE: [ast.Lt, ast.Gt], ast.Gt: [ast.GtE, ast.LtE], ast.GtE: [ast.Gt, ast.Lt],
                     ast.In: [ast.NotIn], ast.NotIn: [ast.In], ast.Is: [ast.IsNot],
                     ast.IsNot: [ast.Is]}
            for new in swaps.get(op, []):
                self.sites.append((node, "cmp", new))
        elif isinstance(node, ast.BinOp):
            swaps = {ast.Add: [ast.Sub], ast.Sub: [ast.Add], ast.BitAnd: [ast.BitOr],
                     ast.BitOr: [ast.BitAnd], ast.LShift: [ast.RShift], ast.RShift: [ast.LShift],
                     ast.Mult: [ast.FloorDiv], ast.FloorDiv: [ast.Mult], ast.Mod: [ast.FloorDiv]}
            for new in swaps.get(type(node.op), []):
                self.sites.append((node, "bin", new))
        elif isinstance(node, ast.BoolOp):
            self.sites.append((node, "bool", ast.Or if isinstance(node.op, ast.And) else ast.And))
        elif isinstance(node, ast.UnaryOp) and isinstance(node.op, (ast.Not, ast.Invert)):
            self.sites.append((node, "unary-drop", None))
        elif isinstance(node, ast.Constant) and isinstance(node.value, int) and \
                not isinstance(node.value, bool) and 0 <= node.value <= 8:
            self.sites.append((node, "const", node.value + 1))
            if node.value > 0:
                self.sites.append((node, "const", node.value - 1))
        elif isinstance(node, ast.Constant) and isinstance(node.value, bool):
            self.sites.append((node, "const", not node.value))
        elif isinstance(node, (ast.If, ast.IfExp, ast.While)):
            self.sites.append((node, "negate-test", None))
        elif isinstance(node, ast.AugAssign) and isinstance(node.op, ast.BitOr):
            self.sites.append((node, "aug", ast.BitAnd))


def mutants_of(path):
    src = open(path).read()
    tree = ast.parse(src)
    # drop docstrings from consideration
    for n in ast.walk(tree):
        if isinstance(n, (ast.FunctionDef, ast.ClassDef, ast.Module)) and n.body and \
                isinstance(n.body[0], ast.Expr) and isinstance(getattr(n.body[0], "value", None), ast.Constant) \
                and isinstance(n.body[0].value.value, str):
            n.body[0].value.value = ""
    v = Sites()
    v.visit(tree)
    out = []
    for idx, (node, kind, new) in enumerate(v.sites):
        t2 = copy.deepcopy(tree)
        # locate the same node in the copy by walking in the same order
        v2 = Sites()
        v2.visit(t2)
        n2, k2, new2 = v2.sites[idx]
        line = getattr(n2, "lineno", 0)
        if kind == "cmp":
            n2.ops = [new()]
        elif kind == "bin":
            n2.op = new()
        elif kind == "bool":
            n2.op = new()
        elif kind == "unary-drop":
            for parent in ast.walk(t2):
                for field, val in ast.iter_fields(parent):
                    if val is n2:
                        setattr(parent, field, n2.operand)
                    elif isinstance(val, list) and n2 in val:
                        val[val.index(n2)] = n2.operand
        elif kind == "const":
            n2.value = new
        elif kind == "negate-test":
            n2.test = ast.UnaryOp(op=ast.Not(), operand=n2.test)
        elif kind == "aug":
            n2.op = new()
        ast.fix_missing_locations(t2)
        try:
            code = ast.unparse(t2)
        except Exception:
            continue
        desc = f"{kind}@{line}:{new.__name__ if isinstance(new, type) else new}"
        out.append((desc, code))
    return out


def run_one(args):
    rel, desc, code, runs = args
    tmp = tempfile.mkdtemp(prefix="verif-mc-", dir="/tmp")
    res = {"file": rel, "mutant": desc}
    try:
        rp = os.path.join(tmp, "repo")
        os.makedirs(rp)
        for item in ("amaranth_soc", "tests", "pyproject.toml"):
            s = os.path.join("/repo", item)
            if os.path.isdir(s):
                shutil.copytree(s, os.path.join(rp, item), ignore=shutil.ignore_patterns("__pycache__"))
            else:
                shutil.copy(s, rp)
        open(os.path.join(rp, "amaranth_soc", rel), "w").write(code)
        env = dict(os.environ, PYTHONPATH=rp, VERIF_REPO=rp)
        try:
            t = subprocess.run(["/venv/bin/python", "-m", "pytest", "-q", "-x", "-p", "no:cacheprovider",
                                "--timeout=60", "tests"], cwd=rp, env=env, capture_output=True,
                               text=True, timeout=600)
            killed_by_tests = t.returncode != 0
        except subprocess.TimeoutExpired:
            killed_by_tests = True
        res["killed_by_repo_tests"] = killed_by_tests
        if killed_by_tests:
            return res
        res["checks"] = {}
        for c in FILE_CHECKS[rel] + LAST_RESORT:
            r = "60" if c == "C01" else str(runs)
            try:
                p = subprocess.run([os.path.join(VERIF, "check"), c, "--runs", r, "--jobs", "1"],
                                   cwd=VERIF, env=dict(env, VERIF_SHRINK="0"), capture_output=True,
                                   text=True, timeout=1800)
                res["checks"][c] = p.returncode
            except subprocess.TimeoutExpired:
                res["checks"][c] = "timeout"
            if res["checks"][c] == 1:
                break
        res["killed_by_checks"] = any(v == 1 for v in res["checks"].values())
        return res
    finally:
        shutil.rmtree(tmp, ignore_errors=True)


def main():
    ap = argparse.ArgumentParser()
    ap.add_argument("--files", default=",".join(FILE_CHECKS))
    ap.add_argument("--max", type=int, default=0, help="max mutants per file (0 = all)")
    ap.add_argument("--runs", type=int, default=500)
    ap.add_argument("--jobs", type=int, default=16)
    args = ap.parse_args()
    tasks = []
    for rel in args.files.split(","):
        ms = mutants_of(os.path.join("/repo/amaranth_soc", rel))
        if args.max and len(ms) > args.max:
            step = len(ms) / args.max
            ms = [ms[int(i * step)] for i in range(args.max)]
        print(f"{rel}: {len(ms)} mutants", flush=True)
        tasks += [(rel, d, c, args.runs) for d, c in ms]
    results = []
    out_path = os.path.join(VERIF, "selftest", "mutation_campaign.json")
    with cf.ProcessPoolExecutor(max_workers=args.jobs) as ex:
        for i, r in enumerate(ex.map(run_one, tasks)):
            results.append(r)
            if not r["killed_by_repo_tests"]:
                print(f"[{i + 1}/{len(tasks)}] {r['file']} {r['mutant']}: tests pass; checks "
                      f"{'KILL' if r['killed_by_checks'] else 'survive'} {r['checks']}", flush=True)
            if i % 20 == 0:
                json.dump(results, open(out_path, "w"), indent=0)
    json.dump(results, open(out_path, "w"), indent=0)
    n = len(results)
    surv_tests = [r for r in results if not r["killed_by_repo_tests"]]
    killed = [r for r in surv_tests if r["killed_by_checks"]]
    print(f"{n} mutants; {n - len(surv_tests)} killed by the repo tests; of the {len(surv_tests)} "
          f"that pass all tests the checks kill {len(killed)}; {len(surv_tests) - len(killed)} survive")
    for r in surv_tests:
        if not r["killed_by_checks"]:
            print("  SURVIVOR", r["file"], r["mutant"], r["checks"])


if __name__ == "__main__":
    sys.exit(main())
