#!/venv/bin/python
"""Replay self-test: for one mutant per world, the minimised replay file written by the check must
reproduce the identical violation in a fresh process against the mutated copy (exit 1), and must be
reported as 'diverged' (exit 3) against the unchanged /repo."""
import os
import re
import shutil
import subprocess
import sys
import tempfile

VERIF = os.path.dirname(os.path.dirname(os.path.abspath(__file__)))
CASES_ALL = [("mux_encode_offset_modulus", "C04"), ("mux_sticky_wstb", "C05"), ("mm_cursor_moves_on_failure", "C02"),
         ("mm_translate_no_div", "C03"), ("mm_absorbed_names_forgotten", "C18"), ("arb_busy_ignores_stb", "C08"),
         ("arb_pred_order", "C09"), ("wbdec_cti_default", "C07"), ("br_last_lane_wrong", "C10"),
         ("sram_write_in_ack_cycle", "C15"), ("evm_fall_is_rise", "C13"), ("csrevm_enable_or", "C14"),
         ("reg_nc_field_read", "C11"), ("act_rw1c_clear_wins", "C12"), ("gpio_setclr_neighbour", "C16"),
         ("bld_scope_leak", "C17"), ("csrdec_rdata_last_only", "C06"), ("soc_csrdec_subs_by_add_order", "C01"),
         ("regress_F1", "C19"), ("regress_F4", "C20")]


def main():
    bad = 0
    only = sys.argv[1:]
    for mut, prop in [c for c in CASES_ALL if not only or c[1] in only]:
        tmp = tempfile.mkdtemp(prefix="verif-replay-", dir="/tmp")
        try:
            rp = os.path.join(tmp, "repo")
            os.makedirs(rp)
            shutil.copytree("/repo/amaranth_soc", os.path.join(rp, "amaranth_soc"),
                            ignore=shutil.ignore_patterns("__pycache__"))
            subprocess.run(["patch", "-p1", "-s", "-d", rp, "-i",
                            os.path.join(VERIF, "selftest", "mutants", mut + ".diff")], check=True)
            env = dict(os.environ, VERIF_REPO=rp, VERIF_RUNS="400" if prop != "C01" else "60")
            c = subprocess.run([os.path.join(VERIF, "check"), prop], cwd=VERIF, env=env,
                               capture_output=True, text=True)
            files = re.findall(r"^VIOLATION property=\S+ replay=(\S+)$", c.stdout, re.M)
            if c.returncode != 1 or not files:
                print(f"{mut}/{prop}: check did not report a violation (exit {c.returncode})")
                bad += 1
                continue
            for f in files:
                r1 = subprocess.run([os.path.join(VERIF, "check"), "--replay", f], cwd=VERIF,
                                    env=dict(os.environ, VERIF_REPO=rp, PYTHONHASHSEED="4242"),
                                    capture_output=True, text=True)
                r0 = subprocess.run([os.path.join(VERIF, "check"), "--replay", f], cwd=VERIF,
                                    env=dict(os.environ, VERIF_REPO="/repo"),
                                    capture_output=True, text=True)
                ok = r1.returncode == 1 and "VIOLATION property=" in r1.stdout and r0.returncode == 3
                print(f"{mut}/{prop}: {os.path.basename(f)} mutated-copy exit={r1.returncode} "
                      f"unchanged-repo exit={r0.returncode} {'OK' if ok else 'FAIL'}")
                if not ok:
                    bad += 1
                    print(r1.stdout[-300:], r0.stdout[-300:])
        finally:
            shutil.rmtree(tmp, ignore_errors=True)
    print("replay self-test:", "PASS" if not bad else f"{bad} FAILURES")
    return 1 if bad else 0


if __name__ == "__main__":
    sys.exit(main())
