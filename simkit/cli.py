import argparse
import os
import sys

from .core import HarnessError, bind_repo
from . import runner


def main(argv):
    ap = argparse.ArgumentParser()
    ap.add_argument("property", nargs="?")
    ap.add_argument("--tier", default=os.environ.get("VERIF_TIER", "quick"),
                    choices=["quick", "thorough"])
    ap.add_argument("--replay")
    ap.add_argument("--runs", type=int, default=None)
    ap.add_argument("--jobs", type=int, default=None)
    ap.add_argument("--digests", action="store_true",
                    help="print one line of digests per run and exit (determinism self-test)")
    args = ap.parse_args(argv)
    try:
        if args.replay:
            return runner.replay(args.replay)
        if not args.property:
            ap.error("property id required")
        bind_repo()
        from worlds import world_for
        world = world_for(args.property)
        seed = int(os.environ.get("VERIF_SEED", "0") or 0)
        n = args.runs or int(os.environ.get("VERIF_RUNS", "0") or 0) or \
            world.runs(args.property, args.tier)
        jobs = args.jobs or int(os.environ.get("VERIF_JOBS", "0") or 0) or \
            min(16, os.cpu_count() or 1)
        if args.digests:
            for r in runner.run_batch(world, args.property, seed, n, jobs):
                v = r.get("violation")
                print(r["i"], r.get("seed"), r["status"], r.get("config_digest"),
                      r.get("ops_digest"), r.get("digest"),
                      (v or {}).get("class"), (v or {}).get("cycle"))
            return 0
        return runner.check(world, args.property, args.tier, seed, n, jobs)
    except HarnessError as e:
        print(f"HARNESS ERROR: {e}", file=sys.stderr)
        return 2
