"""Core types shared by all worlds: violations, run statistics, history digests, world base."""
import hashlib
import json
import os
import sys
import warnings


def repo_path():
    return os.environ.get("VERIF_REPO", "/repo")


def bind_repo():
    """Make `amaranth_soc` resolve to the working tree under test and prove it."""
    path = os.path.realpath(repo_path())
    if sys.path[0] != path:
        sys.path.insert(0, path)
    warnings.simplefilter("ignore")
    import amaranth_soc
    got = os.path.realpath(os.path.dirname(amaranth_soc.__file__))
    want = os.path.join(path, "amaranth_soc")
    if got != want:
        raise HarnessError(f"amaranth_soc resolved to {got}, expected {want}")
    return path


class HarnessError(Exception):
    """The machinery itself is broken; never reported as a VIOLATION and never exit 0."""


class Refused(Exception):
    """The DUT constructor refused a generated configuration with ValueError/TypeError (legal)."""


class Violation(Exception):
    """A property is violated.

    prop   : property id
    cls    : violation class; the shrinker keeps a candidate only if (prop, cls) recurs
    cycle  : simulated cycle / op index of detection
    detail : human readable; deterministic
    key    : stable identification used to match known findings (defaults to cls)
    """
    def __init__(self, prop, cls, cycle, detail, key=None):
        detail = str(detail)
        if len(detail) > 600:
            detail = detail[:400] + f" ...[{len(detail) - 560} characters]... " + detail[-160:]
        super().__init__(f"{prop} {cls} @{cycle}: {detail}")
        self.prop = prop
        self.cls = cls
        self.cycle = cycle
        self.detail = detail
        self.key = key or cls

    def as_dict(self):
        return {"property": self.prop, "class": self.cls, "cycle": self.cycle,
                "detail": self.detail, "key": self.key}


class Stats:
    """Counters measured during one run; merged across runs by the runner."""
    def __init__(self):
        self.faults = {}     # fault kind -> times it actually fired
        self.probes = {}     # rare-branch probes
        self.states = {}     # measure name -> set of abstract states (as strings)
        self.cycles = 0      # simulated clock cycles (0 for clockless history worlds)
        self.steps = 0       # API calls for history worlds
        self.work = 0        # completed transactions / operations (non-triviality)
        self.checks = 0      # individual oracle comparisons evaluated
        self.notes = {}

    def fault(self, kind, n=1):
        if n:
            self.faults[kind] = self.faults.get(kind, 0) + n

    def probe(self, name, n=1):
        if n:
            self.probes[name] = self.probes.get(name, 0) + n

    def state(self, measure, st):
        self.states.setdefault(measure, set()).add(st if isinstance(st, str) else repr(st))

    def as_dict(self):
        return {"faults": self.faults, "probes": self.probes,
                "states": {k: sorted(v) for k, v in self.states.items()},
                "cycles": self.cycles, "steps": self.steps, "work": self.work,
                "checks": self.checks, "notes": self.notes}


class Hist:
    """Running digest of everything observed; the determinism self-test compares these."""
    def __init__(self):
        self._h = hashlib.blake2b(digest_size=12)
        self.n = 0

    def rec(self, *vals):
        self._h.update(repr(vals).encode())
        self.n += 1

    def hex(self):
        return self._h.hexdigest()


def jdigest(obj):
    return hashlib.blake2b(json.dumps(obj, sort_keys=True, default=str).encode(),
                           digest_size=12).hexdigest()


class World:
    """One simulated world. Sub-classes implement gen_config/gen_ops/run.

    run(config, ops, props, stats, hist) executes exactly the given (config, ops): it draws
    nothing from a PRNG, reads no clock and must be a pure function of its arguments and the code
    under test. It raises Violation for the first violated property in `props`, Refused when the
    DUT constructor legally refuses the configuration, and anything else is a harness error or a
    DUT exception (classified by the runner via `dut_exception`)."""
    name = None
    properties = ()
    clocked = True

    def gen_config(self, rng, prop):
        raise NotImplementedError

    def gen_ops(self, rng, config, prop):
        raise NotImplementedError

    def run(self, config, ops, props, stats, hist):
        raise NotImplementedError

    # --- shrinking support -------------------------------------------------------------------
    def normalise(self, config, ops):
        """Make an arbitrary (structurally reduced) op list well-formed for config."""
        return config, ops

    def shrink_config(self, config, ops):
        """Yield candidate (config, ops) pairs that are simpler than the given one."""
        return ()

    def simplify_op(self, op):
        """Yield simpler variants of one op."""
        return ()

    # --- evidence ----------------------------------------------------------------------------
    nontrivial_needs_fault = True
    real_components = ()
    stub_components = ()
    fault_kinds = ()
    assumptions = ()

    def fixed_scenarios(self, prop):
        """Deterministic extra scenarios: [(name, config, ops)] (known-finding reproductions)."""
        return ()

    def rule(self, prop):
        return ("cases = (configuration, op/fault schedule) pairs drawn from the seeded generator; "
                "non-trivial = at least one operation/transaction completed and at least one fault "
                "kind actually fired; distinct = distinct (config, ops, observed-history) digests")

    def state_targets(self, prop, states):
        """Optional: {measure: {"reached": n, "feasible": m}}."""
        return {}

    def assumptions_for(self, prop):
        return self.assumptions

    def sample(self, config, ops):
        """A compact rendering of one scenario for the evidence file."""
        return {"config": config, "ops": ops[:12], "n_ops": len(ops)}
