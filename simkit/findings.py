"""Known findings: a committed file, never written at run time.

Entry: {"id", "property", "key" (exact violation key) or "key_re" (regex), "status": "known" |
"fixed", "what", ["commit"]}. Only status == "known" suppresses; a "fixed" entry suppresses
nothing, so a returning defect is reported again."""
import json
import os
import re


def load(path):
    if not os.path.exists(path):
        return []
    with open(path) as f:
        return json.load(f)["findings"]


def match(known, prop, key):
    for kf in known:
        if kf.get("status") != "known" or kf["property"] != prop:
            continue
        if "key" in kf and kf["key"] == key:
            return kf
        if "key_re" in kf and re.fullmatch(kf["key_re"], key):
            return kf
    return None
