"""Helpers for clocked worlds: building a top module around real components and stepping
Amaranth's own RTL simulator one clock cycle at a time."""
import warnings

warnings.simplefilter("ignore")

from amaranth import Module, Signal, Value  # noqa: E402
from amaranth.hdl import Fragment  # noqa: E402
from amaranth.sim import Simulator  # noqa: E402
from amaranth.lib import wiring  # noqa: E402
from amaranth.lib.wiring import In, Out  # noqa: E402

from .core import Refused, HarnessError  # noqa: E402
from .runner import Unbuildable  # noqa: E402


def construct(fn, *args, **kwargs):
    """Call a DUT constructor / configuration method. ValueError and TypeError are refusals."""
    try:
        return fn(*args, **kwargs)
    except (ValueError, TypeError) as e:
        raise Refused(f"{type(e).__name__}: {e}") from e


def must_accept(prop, what, fn, *args, **kwargs):
    """A constructor / configuration call on parameters that lie inside the domain the property
    quantifies over: a refusal means the property cannot hold there."""
    from .core import Violation
    try:
        return fn(*args, **kwargs)
    except (ValueError, TypeError) as e:
        raise Violation(prop, "configuration-inside-the-stated-domain-refused", 0,
                        f"{what}: {type(e).__name__}: {str(e)[:160]}",
                        key=f"refused:{what.split('(')[0]}") from e


def feature_speller(how):
    """The ways a caller may write a Wishbone feature collection (all documented as accepted:
    any iterable of wishbone.Feature members or of their string values)."""
    from amaranth_soc import wishbone
    return {"enum": lambda fs: {wishbone.Feature(f) for f in fs},
            "frozenset": lambda fs: frozenset(fs), "list": lambda fs: sorted(fs),
            "tuple": lambda fs: tuple(sorted(fs))}.get(how, lambda fs: set(fs))


def spelled(omit, defaults, **kwargs):
    """Keyword arguments as a caller may spell them: when `omit` is set, every argument whose
    value is the documented default is left out (the default must then mean the same)."""
    if not omit:
        return kwargs
    return {k: v for k, v in kwargs.items() if not (k in defaults and v == defaults[k])}


def make_top_with_reset(*components):
    """Like make_top, with an explicit `sync` domain whose reset the harness can pulse."""
    from amaranth import ClockDomain
    m = Module()
    cd = ClockDomain("sync")
    m.domains.sync = cd
    ctr = Signal(8, name="verif_ctr")
    m.d.sync += ctr.eq(ctr + 1)
    for i, c in enumerate(components):
        m.submodules[f"dut{i}"] = c
    return m, cd.rst


def make_top(*components):
    """A top module that always has a `sync` domain (a free-running counter)."""
    m = Module()
    ctr = Signal(8, name="verif_ctr")
    m.d.sync += ctr.eq(ctr + 1)
    for i, c in enumerate(components):
        m.submodules[f"dut{i}"] = c
    return m


PRE_ELABORATE = False     # set by the runner from config["pre"] before every run


def elaborate_once(component):
    """Elaborate a component and throw the result away (conversion / a first simulation). An
    exception is C19's business."""
    try:
        Fragment.get(component, None)
    except RecursionError as e:
        raise Unbuildable(f"RecursionError during elaboration: {e}") from e
    except Exception as e:
        raise Unbuildable(f"{type(e).__name__} during elaboration: {e}") from e


def build_sim(top):
    """Elaborate and compile. For every world except `elab` (C19) a failure here is not this
    property's business: counted as unbuildable.

    Restart fault: when the run's configuration says so, the design is elaborated once and thrown
    away before the simulator that is actually used is built (the user synthesised first and
    simulates afterwards). An exception is C19's business; silently different hardware is the
    business of whatever property it then breaks."""
    try:
        if PRE_ELABORATE:
            Simulator(top)
        sim = Simulator(top)
    except RecursionError as e:
        raise Unbuildable(f"RecursionError during elaboration: {e}") from e
    except Exception as e:
        raise Unbuildable(f"{type(e).__name__} during elaboration: {e}") from e
    sim.add_clock(1e-6)
    return sim


def run_tb(sim, tb):
    """Run a single testbench coroutine to completion. A Violation raised inside propagates."""
    box = {}

    async def wrapper(ctx):
        try:
            await tb(ctx)
        except BaseException as e:  # carry out of the simulator
            box["exc"] = e

    sim.add_testbench(wrapper)
    sim.run()
    if "exc" in box:
        raise box["exc"]


def V(sig):
    """Plain Value for get/set (enum-shaped ports are views)."""
    return Value.cast(sig)


class Pins:
    """Cached get/set through Value.cast."""
    def __init__(self, ctx):
        self.ctx = ctx

    def get(self, sig):
        return int(self.ctx.get(Value.cast(sig)))

    def set(self, sig, val):
        self.ctx.set(Value.cast(sig), val)

    def drive_input(self, prop, what, sig, val):
        """Drive a signal the component's signature declares as an input. If the component
        drives it itself the simulator refuses: the port does not have the declared direction."""
        from amaranth.hdl._ir import DriverConflict
        from .core import Violation
        try:
            self.ctx.set(Value.cast(sig), val)
        except DriverConflict:
            raise Violation(prop, "declared-input-is-driven-by-the-component", 0,
                            f"{what} is an input by its signature but the component drives it",
                            key=f"input-driven:{what}")


def mock_reg(width, access, kind=None):
    """Register stubs as user code may write them: a plain component, one whose instances compare
    and hash by value (two registers of the same shape are 'equal'), or one that is falsy
    (defines __len__, e.g. 'number of fields', and has none)."""
    if kind == "valueq":
        return ValueEqReg(width, access)
    if kind == "falsy":
        return FalsyReg(width, access)
    return MockReg(width, access)


class MockReg(wiring.Component):
    """A bare `element` port: the register back-end is an agent of the world."""
    def __init__(self, width, access):
        from amaranth_soc import csr
        super().__init__({"element": Out(csr.Element.Signature(width, access))})

    def elaborate(self, platform):
        return Module()


class ValueEqReg(MockReg):
    def __init__(self, width, access):
        super().__init__(width, access)
        self._verif_key = (width, access)

    def __eq__(self, other):
        return isinstance(other, ValueEqReg) and other._verif_key == self._verif_key

    def __hash__(self):
        return hash(self._verif_key)


class FalsyReg(MockReg):
    def __len__(self):
        return 0
