"""Deterministic randomness: splitmix64 with labelled sub-streams.

No use of `random`, hash() or set iteration order anywhere: one integer decides everything.
"""
import hashlib

MASK64 = (1 << 64) - 1


def h64(*parts):
    """Stable 64-bit hash of a tuple of ints/strings (independent of PYTHONHASHSEED)."""
    h = hashlib.sha256()
    for p in parts:
        h.update(repr(p).encode())
        h.update(b"\x00")
    return int.from_bytes(h.digest()[:8], "little")


def mix(x):
    """splitmix64 finaliser: counter-based hash used for per-cycle hardware values."""
    x = (x + 0x9E3779B97F4A7C15) & MASK64
    x = ((x ^ (x >> 30)) * 0xBF58476D1CE4E5B9) & MASK64
    x = ((x ^ (x >> 27)) * 0x94D049BB133111EB) & MASK64
    return x ^ (x >> 31)


def cval(seed, stream, t, bits):
    """Counter-based value: pure function of (seed, stream, t). Used for values that change
    every cycle (register back-ends, pin levels, garbage lines) so that the op list stays short
    and (config, ops) alone still determines the execution."""
    if bits <= 0:
        return 0
    out = 0
    got = 0
    k = 0
    while got < bits:
        out |= mix((seed * 0x100000001B3 + stream * 0x9E3779B1 + t * 0x85EBCA77 + k * 0xC2B2AE3D)
                   & MASK64) << got
        got += 64
        k += 1
    return out & ((1 << bits) - 1)


class Rng:
    def __init__(self, seed):
        self.state = seed & MASK64

    def sub(self, label):
        return Rng(h64(self.state, label))

    def u64(self):
        self.state = (self.state + 0x9E3779B97F4A7C15) & MASK64
        z = self.state
        z = ((z ^ (z >> 30)) * 0xBF58476D1CE4E5B9) & MASK64
        z = ((z ^ (z >> 27)) * 0x94D049BB133111EB) & MASK64
        return z ^ (z >> 31)

    def bits(self, n):
        if n <= 0:
            return 0
        out = 0
        got = 0
        while got < n:
            out |= self.u64() << got
            got += 64
        return out & ((1 << n) - 1)

    def below(self, n):
        assert n > 0
        return self.u64() % n

    def range(self, lo, hi):
        """Integer in [lo, hi] inclusive."""
        return lo + self.below(hi - lo + 1)

    def chance(self, p):
        return self.u64() < int(p * (1 << 64))

    def choice(self, seq):
        return seq[self.below(len(seq))]

    def wchoice(self, pairs):
        """pairs: [(item, weight)]"""
        tot = sum(w for _, w in pairs)
        x = self.below(tot)
        for it, w in pairs:
            if x < w:
                return it
            x -= w
        raise AssertionError

    def shuffle(self, lst):
        for i in range(len(lst) - 1, 0, -1):
            j = self.below(i + 1)
            lst[i], lst[j] = lst[j], lst[i]
        return lst

    def subset(self, seq, p=0.5):
        return [x for x in seq if self.chance(p)]
