"""Batch runner: seeded runs over a fork pool, shrinking, replay files, evidence, exit codes."""
import faulthandler
import json
import multiprocessing
import os
import sys
import time
import traceback

from .core import (HarnessError, Refused, Violation, Stats, Hist, jdigest, bind_repo, repo_path)
from .rng import Rng, h64
from . import findings as findings_mod
from . import shrink as shrink_mod

VERIF_DIR = os.path.dirname(os.path.dirname(os.path.abspath(__file__)))
RUN_TIMEOUT_S = int(os.environ.get("VERIF_RUN_TIMEOUT", "300"))
# Off by default. The sensitivity matrix (tools/sensitivity_report.py) sets it: when a patched copy is
# known to be wrong, the batch stops scheduling further chunks after the first violation.
STOP_ON_FIRST = os.environ.get("VERIF_STOP_ON_FIRST") == "1"


_KNOWN = findings_mod.load(os.path.join(VERIF_DIR, "known_findings.json"))


class Unbuildable(Refused):
    """The configuration was accepted but could not be elaborated/simulated. That is C19's
    business; every other check counts it and moves on (independence between properties)."""


def run_seed(verif_seed, world_name, prop, i):
    return h64("run", verif_seed, world_name, prop, i)


def execute(world, prop, config, ops):
    """Run one (config, ops) pair. Returns a result dict; never raises except HarnessError."""
    stats = Stats()
    hist = Hist()
    res = {"status": "ok", "violation": None}
    try:
        from . import hw as _hw
        _hw.PRE_ELABORATE = bool(isinstance(config, dict) and config.get("pre"))
        if _hw.PRE_ELABORATE:
            stats.fault("elaborated_once_before_simulation")
    except ImportError:
        pass
    try:
        world.run(config, ops, {prop}, stats, hist)
    except Violation as v:
        res["status"] = "violation"
        res["violation"] = v.as_dict()
    except Unbuildable as e:
        res["status"] = "unbuildable"
        res["why"] = str(e)[:200]
    except Refused as e:
        res["status"] = "refused"
        res["why"] = str(e)[:200]
    except HarnessError:
        raise
    except RecursionError as e:
        raise HarnessError(f"RecursionError outside a DUT phase: {e}") from e
    except Exception as e:
        # An exception that was *raised inside the code under test* (not a refusal, not at
        # elaboration - those are handled by the worlds) in response to the legal use this world
        # makes of it: the component failed with an internal error under this property's workload.
        # Exceptions raised in harness code stay harness errors.
        where = _raised_in_repo(e)
        if where is None:
            raise
        res["status"] = "violation"
        res["violation"] = Violation(prop, "code-under-test-raised-internal-error", stats.cycles +
                                     stats.steps, f"{type(e).__name__}: {str(e)[:160]} (in {where})",
                                     key=f"dut-exception:{type(e).__name__}:{where}").as_dict()
    res["stats"] = stats
    res["digest"] = hist.hex()
    return res


def _raised_in_repo(exc):
    """'file:function' of the innermost frame inside the repository under test if the exception
    was raised there, else None."""
    root = os.path.realpath(repo_path()) + os.sep
    tb = exc.__traceback__
    last = None
    while tb is not None:
        last = tb
        tb = tb.tb_next
    if last is None:
        return None
    fn = os.path.realpath(last.tb_frame.f_code.co_filename)
    if fn.startswith(root):
        return f"{os.path.relpath(fn, root)}:{last.tb_frame.f_code.co_name}"
    return None


def one_run(world, prop, verif_seed, i, keep):
    seed = run_seed(verif_seed, world.name, prop, i)
    rng = Rng(seed)
    config = world.gen_config(rng.sub("config"), prop)
    if world.clocked and world.name != "elab" and rng.sub("pre").chance(0.1):
        config["pre"] = 1       # restart fault: the instance is elaborated once before it is simulated
    ops = world.gen_ops(rng.sub("ops"), config, prop)
    res = execute(world, prop, config, ops)
    res["i"] = i
    res["seed"] = seed
    res["config_digest"] = jdigest(config)
    res["ops_digest"] = jdigest(ops)
    if keep or res["status"] == "violation":
        res["config"] = config
        res["ops"] = ops
    return res


def _worker(args):
    world_name, prop, verif_seed, indices, keep_first = args
    from worlds import get_world
    world = get_world(world_name)
    out = []
    agg = _empty_agg()
    for i in indices:
        faulthandler.dump_traceback_later(RUN_TIMEOUT_S, exit=True)
        r = None
        try:
            r = one_run(world, prop, verif_seed, i, keep=(i < keep_first))
        except HarnessError as e:
            r = {"i": i, "status": "harness", "why": f"{e}\n{traceback.format_exc()}"}
        except Exception as e:  # anything unexpected inside the harness itself
            r = {"i": i, "status": "harness",
                 "why": f"{type(e).__name__}: {e}\n{traceback.format_exc()}"}
        finally:
            faulthandler.cancel_dump_traceback_later()
        if "stats" in r:
            sd = r.pop("stats").as_dict()
            r["nontrivial"] = bool(sd["work"] > 0 and (sum(sd["faults"].values()) > 0 or
                                                       not world.fault_kinds or
                                                       not world.nontrivial_needs_fault))
            r["cycles"] = sd["cycles"]
            _fold(agg, sd)
        r["chunk_start"] = indices[0]
        out.append(r)
    return {"runs": out, "agg": agg}


def _empty_agg():
    return {"faults": {}, "probes": {}, "states": {}, "cycles": 0, "steps": 0, "work": 0,
            "checks": 0}


def _fold(tot, s):
    for k in ("faults", "probes"):
        for name, n in s[k].items():
            tot[k][name] = tot[k].get(name, 0) + n
    for name, sts in s["states"].items():
        tot["states"].setdefault(name, set()).update(sts)
    for k in ("cycles", "steps", "work", "checks"):
        tot[k] += s[k]


def _child(conn, task):
    try:
        conn.send(_worker(task))
    finally:
        conn.close()


def _run_tasks_forked(tasks, jobs):
    """Every task (a contiguous chunk of run indices) runs in its own freshly forked process, so
    the in-process history of a run is exactly the earlier runs of its chunk (this is what a
    replay file records as `context` when a violation does not reproduce stand-alone, e.g. for
    defects in state shared between instances). A child killed by the watchdog is a harness
    error, never a pass."""
    from multiprocessing.connection import wait
    ctx = multiprocessing.get_context("fork")
    pending = list(enumerate(tasks))
    live = {}
    done = {}
    try:
        while pending or live:
            while pending and len(live) < jobs:
                idx, t = pending.pop(0)
                rd, wr = ctx.Pipe(duplex=False)
                proc = ctx.Process(target=_child, args=(wr, t))
                proc.start()
                wr.close()
                live[rd] = (proc, idx)
            for conn in wait(list(live)):
                proc, idx = live.pop(conn)
                try:
                    done[idx] = conn.recv()
                    if STOP_ON_FIRST and any(
                            r_.get("status") == "violation" and not findings_mod.match(
                                _KNOWN, r_["violation"]["property"], r_["violation"]["key"])
                            for r_ in done[idx]["runs"]):
                        pending.clear()      # regression harness only: one detection is enough
                except EOFError as e:
                    raise HarnessError(f"worker for runs {tasks[idx][3][0]}..{tasks[idx][3][-1]} "
                                       f"died (watchdog or crash)") from e
                finally:
                    conn.close()
                proc.join()
    finally:
        for conn, (proc, idx) in live.items():
            proc.kill()
    return [done[i] for i in sorted(done)]


def run_batch(world, prop, verif_seed, n_runs, jobs, keep_first=3):
    """Returns list of per-run results in run-index order (independent of worker count)."""
    chunk = max(1, min(64, n_runs // (jobs * 8) or 1))
    tasks = [(world.name, prop, verif_seed, list(range(s, min(n_runs, s + chunk))), keep_first)
             for s in range(0, n_runs, chunk)]
    results = []
    agg = _empty_agg()
    if jobs <= 1:
        for t in tasks:
            part = _worker(t)
            results.extend(part["runs"])
            _fold(agg, part["agg"])
    else:
        for part in _run_tasks_forked(tasks, jobs):
            results.extend(part["runs"])
            _fold(agg, part["agg"])
    results.sort(key=lambda r: r["i"])
    run_batch.last_agg = agg
    return results


def merge_stats(agg, extra):
    tot = _empty_agg()
    _fold(tot, agg)
    for r in extra:
        if r.get("stats"):
            _fold(tot, r["stats"])
    return tot


def write_replay(world, prop, seed, config, ops, violation, tag, context=None):
    os.makedirs(os.path.join(VERIF_DIR, "replays"), exist_ok=True)
    path = os.path.join(VERIF_DIR, "replays", f"{prop}-{tag}.json")
    doc = {"property": prop, "world": world.name, "seed": seed, "config": config, "ops": ops,
           "violation": violation, "digest": jdigest([config, ops])}
    if context:
        doc["context"] = context
    with open(path, "w") as f:
        json.dump(doc, f, indent=1, sort_keys=True, default=str)
    return path


def _replays_in_fresh_process(path):
    import subprocess
    env = dict(os.environ)
    env.pop("VERIF_RUNS", None)
    try:
        r = subprocess.run([os.path.join(VERIF_DIR, "check"), "--replay", path], cwd=VERIF_DIR,
                           env=env, capture_output=True, text=True, timeout=1800)
    except subprocess.TimeoutExpired:
        return False
    return r.returncode == 1


def replay(path):
    """Re-run a replay file in this (fresh) process. Exit 1 + VIOLATION when it reproduces
    exactly, exit 3 when it diverges."""
    bind_repo()
    from worlds import get_world
    with open(path) as f:
        doc = json.load(f)
    world = get_world(doc["world"])
    prop = doc["property"]
    ctxd = doc.get("context")
    if ctxd:
        # the violation needs the in-process history of its chunk: re-run those runs first
        print(f"re-running context runs {ctxd['first']}..{ctxd['last']} first (state shared between "
              f"instances)")
        for j in range(ctxd["first"], ctxd["last"] + 1):
            one_run(world, prop, ctxd["verif_seed"], j, keep=False)
    res = execute(world, prop, doc["config"], doc["ops"])
    want = doc["violation"]
    got = res["violation"]
    if got is not None and all(got[k] == want[k] for k in ("property", "class", "cycle", "detail")):
        print(f"replayed: {got['class']} @{got['cycle']}: {got['detail']}")
        print(f"VIOLATION property={prop} replay={path}")
        return 1
    print(f"replay diverged: recorded {want} but got {got} (status {res['status']})")
    return 3


def check(world, prop, tier, verif_seed, n_runs, jobs, level_note=None):
    t0 = time.time()
    repo = bind_repo()
    known = findings_mod.load(os.path.join(VERIF_DIR, "known_findings.json"))
    print(f"check property={prop} world={world.name} tier={tier} VERIF_SEED={verif_seed} "
          f"runs={n_runs} jobs={jobs} repo={repo}")
    results = run_batch(world, prop, verif_seed, n_runs, jobs)
    harness = [r for r in results if r["status"] == "harness"]
    if harness:
        print(f"HARNESS ERROR in run {harness[0]['i']}: {harness[0]['why']}", file=sys.stderr)
        return 2
    # extra deterministic probes of the world (known-finding reproductions, fixed scenarios)
    extra = []
    for name, config, ops in world.fixed_scenarios(prop):
        r = execute(world, prop, config, ops)
        r.update(i=-1, seed=0, config=config, ops=ops, fixed=name,
                 config_digest=jdigest(config), ops_digest=jdigest(ops))
        r["stats"] = r["stats"].as_dict()
        extra.append(r)

    viol = [r for r in extra + results if r["status"] == "violation"]
    by_key = {}
    for r in viol:
        by_key.setdefault(r["violation"]["key"], []).append(r)
    exit_code = 0
    known_hit = []
    new_violations = []
    shrunk = 0
    for key in sorted(by_key):
        r = by_key[key][0]
        kf = findings_mod.match(known, prop, key)
        if kf is not None:
            print(f"KNOWN-FINDING: property={prop} {kf['id']} {kf['what']} "
                  f"[{len(by_key[key])} run(s), key={key}]")
            known_hit.append({"id": kf["id"], "key": key, "runs": len(by_key[key])})
            continue
        config, ops, v = r["config"], r["ops"], r["violation"]
        if shrunk < 3:
            config, ops, v, tried = shrink_mod.shrink(world, prop, config, ops, v,
                                                      budget=int(os.environ.get("VERIF_SHRINK", "300")))
            shrunk += 1
        else:
            tried = 0
        tag = f"{tier}-{verif_seed}-{len(new_violations)}"
        path = write_replay(world, prop, r["seed"], config, ops, v, tag)
        verified = _replays_in_fresh_process(path)
        if not verified and r["i"] >= 0:
            # Does not reproduce in a fresh interpreter (this process has run other candidates:
            # state shared between instances). Fall back to the original run plus its in-process
            # history: the earlier runs of its chunk, which ran in a freshly forked worker.
            config, ops, v = r["config"], r["ops"], r["violation"]
            context = None
            if r["i"] > r.get("chunk_start", r["i"]):
                context = {"verif_seed": verif_seed, "first": r["chunk_start"], "last": r["i"] - 1}
            path = write_replay(world, prop, r["seed"], config, ops, v, tag, context)
            verified = _replays_in_fresh_process(path)
            print(f"note: the minimised scenario does not reproduce in a fresh process; replay file "
                  f"holds the original run{' with its in-process history' if context else ''} "
                  f"(reproduces in a fresh process: {verified})")
        print(f"violation: run={r['i']} seed={r['seed']} class={v['class']} cycle={v['cycle']} "
              f"{v['detail']} (minimised to {len(ops)} ops in {tried} candidate runs; "
              f"{len(by_key[key])} run(s) with this key)")
        print(f"VIOLATION property={prop} replay={path}")
        new_violations.append({"key": key, "replay": path, "violation": v})
        exit_code = 1

    wall = time.time() - t0
    write_evidence(world, prop, tier, verif_seed, results, extra, known_hit, new_violations,
                   wall, jobs)
    n_ok = sum(1 for r in results if r["status"] in ("ok", "violation"))
    if n_ok == 0:
        print("HARNESS ERROR: no run was executed to completion (all refused/unbuildable)",
              file=sys.stderr)
        return 2
    print(f"done: {len(results)} runs, {n_ok} executed, "
          f"{sum(1 for r in results if r['status'] == 'refused')} refused, "
          f"{sum(1 for r in results if r['status'] == 'unbuildable')} unbuildable, "
          f"{len(new_violations)} new violation key(s), {len(known_hit)} known finding(s), "
          f"{wall:.1f}s")
    return exit_code


def write_evidence(world, prop, tier, verif_seed, results, extra, known_hit, new_violations,
                   wall, jobs):
    tot = merge_stats(getattr(run_batch, "last_agg", _empty_agg()), extra)
    executed = [r for r in results if r["status"] in ("ok", "violation")]
    # distinct & non-trivial: distinct (config, ops, history) digests among runs that completed
    # at least one operation/transaction AND in which at least one fault kind actually fired.
    nontrivial = set()
    for r in executed:
        if r.get("nontrivial"):
            nontrivial.add((r["config_digest"], r["ops_digest"], r["digest"]))
    samples = []
    for r in results[:3]:
        if "config" in r:
            sm = world.sample(r["config"], r["ops"])
            sm["run"] = r["i"]
            sm["seed"] = r["seed"]
            sm["status"] = r["status"]
            sm["history_digest"] = r.get("digest")
            samples.append(sm)
    states = {k: len(v) for k, v in tot["states"].items()}
    coverage = {
        "evaluations": len(results),
        "distinct_nontrivial": len(nontrivial),
        "rule": world.rule(prop),
        "samples": samples,
        "executed": len(executed),
        "refused_configs": sum(1 for r in results if r["status"] == "refused"),
        "unbuildable_configs": sum(1 for r in results if r["status"] == "unbuildable"),
        "fixed_scenarios": [{"name": r["fixed"], "status": r["status"]} for r in extra],
        "simulated_cycles": tot["cycles"],
        "api_steps": tot["steps"],
        "completed_operations": tot["work"],
        "oracle_comparisons": tot["checks"],
        "fault_counts": dict(sorted(tot["faults"].items())),
        "probes": dict(sorted(tot["probes"].items())),
        "abstract_states": states,
        "abstract_state_targets": world.state_targets(prop, tot["states"]),
        "runs_per_hour": int(len(results) / wall * 3600) if wall > 0 else 0,
        "simulated_cycles_per_hour": int(tot["cycles"] / wall * 3600) if wall > 0 else 0,
        "workers": jobs,
        "real_components": list(world.real_components),
        "stub_components": list(world.stub_components),
        "known_findings_hit": known_hit,
        "new_violations": new_violations,
        "exhaustive": False,
    }
    doc = {
        "property_id": prop,
        "tier": tier,
        "seed": verif_seed,
        "level": "exploration",
        "coverage": coverage,
        "assumptions": list(world.assumptions_for(prop)),
        "wall_s": round(wall, 2),
        "violations": len(new_violations),
    }
    # /verif/evidence describes /repo itself; a run against a scratch copy (a seeded change, a
    # mutant) must not overwrite it
    from .core import repo_path
    ev_dir = os.path.join(VERIF_DIR, "evidence")
    if os.path.realpath(repo_path()) != "/repo":
        ev_dir = os.environ.get("VERIF_EVIDENCE_DIR") or "/tmp/verif-evidence-scratch"
    os.makedirs(ev_dir, exist_ok=True)
    path = os.path.join(ev_dir, f"{prop}.json")
    with open(path, "w") as f:
        json.dump(doc, f, indent=1, sort_keys=True, default=str)
    return path
