"""Minimisation: ddmin over the op list, per-op simplification, configuration reduction.

A candidate is kept only if the same (property, violation class) recurs. Every candidate is first
passed through world.normalise so the shrinker needs no knowledge of the world."""
import copy


def _same(v, target):
    return v is not None and v["property"] == target["property"] and v["class"] == target["class"]


def shrink(world, prop, config, ops, violation, budget=300):
    from .runner import execute
    from .core import HarnessError
    tried = 0
    best = (config, ops, violation)

    def attempt(c, o):
        nonlocal tried, best
        if tried >= budget:
            return False
        tried += 1
        try:
            c, o = world.normalise(copy.deepcopy(c), copy.deepcopy(o))
            res = execute(world, prop, c, o)
        except HarnessError:
            return False
        except Exception:
            return False
        if _same(res["violation"], violation):
            best = (c, o, res["violation"])
            return True
        return False

    # 0. truncate after the failing point (cheap, big win) — worlds expose op granularity via
    #    violation["cycle"]; we simply try halving the tail.
    progress = True
    while progress and tried < budget:
        progress = False
        # 1. ddmin over ops
        n = 2
        while len(best[1]) >= 1 and tried < budget:
            ops_now = best[1]
            size = max(1, len(ops_now) // n)
            removed = False
            for start in range(0, len(ops_now), size):
                cand = ops_now[:start] + ops_now[start + size:]
                if attempt(best[0], cand):
                    removed = True
                    progress = True
                    n = max(n - 1, 2)
                    break
            if not removed:
                if size == 1:
                    break
                n = min(len(ops_now), n * 2)
        # 2. simplify single ops
        idx = 0
        while idx < len(best[1]) and tried < budget:
            changed = False
            for simpler in world.simplify_op(best[1][idx]):
                cand = list(best[1])
                cand[idx] = simpler
                if attempt(best[0], cand):
                    changed = True
                    progress = True
                    break
            if not changed:
                idx += 1
        # 3. configuration reduction
        again = True
        while again and tried < budget:
            again = False
            for c, o in world.shrink_config(best[0], best[1]):
                if attempt(c, o):
                    again = True
                    progress = True
                    break
    return best[0], best[1], best[2], tried
