#!/venv/bin/python
"""Generate MANIFEST.json from the registry (worlds/__init__.py) and the per-property table here."""
import json
import os
import sys

VERIF = os.path.dirname(os.path.dirname(os.path.abspath(__file__)))
sys.path.insert(0, VERIF)
from worlds import PROPERTY_WORLD  # noqa: E402

TABLE = json.load(open(os.path.join(VERIF, "tools", "levels.json")))

ALL = [f"C{n:02d}" for n in range(1, 21)]
checks = []
na = []
for pid in ALL:
    row = TABLE.get(pid, {})
    if pid in PROPERTY_WORLD and not row.get("not_applicable"):
        checks.append({
            "property_id": pid,
            "quick_cmd": f"./check {pid} --tier quick",
            "thorough_cmd": f"./check {pid} --tier thorough",
            "evidence_file": f"/verif/evidence/{pid}.json",
            "replay_cmd_template": "./check --replay {path}",
            "engine": "simkit",
            "level_claimed": {"category": "exploration", "text": row["text"],
                              "design_ref": row.get("design_ref", f"DESIGN.md §3 {pid}")},
            "level_note": row["note"],
            "technique": row["technique"],
        })
    else:
        na.append({"property_id": pid,
                   "reason": row.get("not_applicable", "check not built yet in this session "
                                     "(work in progress; see DESIGN.md §3 for the plan)")})
manifest = {
    "version": 1,
    "setup_cmd": "/venv/bin/python -c \"import amaranth, amaranth_soc; print('ok')\" && chmod +x /verif/check",
    "hooks": {
        "guard": "AMARANTH_SOC_VERIF",
        "enable": "no hooks exist: the seam is amaranth.sim (the generated hardware runs inside "
                  "Amaranth's deterministic RTL simulator); checks import /repo's working tree "
                  "directly (VERIF_REPO overrides the path)",
        "baseline_off_cmd": "cd /repo && /venv/bin/python -m pytest -q -p no:cacheprovider "
                            "--timeout=900",
        "source_commits": [],
        "add_only": True,
    },
    "engines": [{
        "name": "simkit",
        "path": "/verif/simkit",
        "serves_properties": [c["property_id"] for c in checks],
        "kind_free_text": "deterministic simulation with fault injection: seeded scheduler + "
                          "agents around Amaranth's RTL simulator running the real elaborated "
                          "netlists; reference-model oracles with a protocol conformance tracker; "
                          "ddmin shrinking; JSON replay files",
    }],
    "checks": checks,
    "not_applicable": na,
    "notes": "Exit codes: 0 held (KNOWN-FINDING lines allowed), 1 VIOLATION, 2 harness error, "
             "3 replay diverged. VERIF_SEED, VERIF_TIER, VERIF_RUNS, VERIF_JOBS, VERIF_REPO "
             "are honoured.",
}
with open(os.path.join(VERIF, "MANIFEST.json"), "w") as f:
    json.dump(manifest, f, indent=1)
print(f"{len(checks)} checks, {len(na)} not claimed")
