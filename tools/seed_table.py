#!/venv/bin/python
"""Write seeded/README.md: one row per confirmed seeded change."""
import glob
import json
import os

VERIF = os.path.dirname(os.path.dirname(os.path.abspath(__file__)))
rows = []
for d in sorted(glob.glob(os.path.join(VERIF, "seeded", "C*"))):
    mp = os.path.join(d, "meta.json")
    if not os.path.exists(mp):
        continue
    m = json.load(open(mp))
    notes = (m.get("needs_to_manifest") or "").strip().replace("\n", " ")
    notes = " ".join(notes.split())[:330]
    viol = ""
    for k in m.get("caught_by", []):
        v = m["checks"][k]["violations"]
        if v:
            viol = v[0].split("class=")[1].split(" ")[0] if "class=" in v[0] else ""
    rows.append((m["id"], m["breaks_property"], "yes" if m.get("confirmed") else "NO",
                 m.get("repo_tests_with_patch", "")[:10], ", ".join(m.get("caught_by", [])) or "MISSED",
                 viol, notes))
out = ["# Seeded changes", "",
       "Each directory holds a change to amaranth-soc written by a fresh sub-agent that saw only the "
       "property text and a scratch worktree (patch.diff, demo.py = its own demonstration, notes.md), "
       "plus meta.json written by selftest/ingest_seed.py: the demo passes on the unchanged /repo, the "
       "patch applies, the 290 repo tests pass with it, the demo fails with it, and which check reports a "
       "VIOLATION against the patched copy. Ids A/B = round 1, C/D = round 2 (asked for harder, "
       "different-in-kind changes).", "",
       "| id | property | confirmed | repo tests | caught by | violation class | what it is / needs |",
       "|---|---|---|---|---|---|---|"]
for r in rows:
    out.append("| " + " | ".join(r) + " |")
open(os.path.join(VERIF, "seeded", "README.md"), "w").write("\n".join(out) + "\n")
print(len(rows), "rows;", sum(1 for r in rows if r[4] == "MISSED"), "missed")
