#!/venv/bin/python
"""Run every catalogued mutant / regression patch / seeded change against its designated checks
(plus, with --cross, against every check) and write selftest/sensitivity.json and a markdown
table (selftest/SENSITIVITY.md). Each patch is applied to a scratch copy outside /repo and /verif."""
import glob
import json
import os
import shutil
import subprocess
import sys
import tempfile
import time

VERIF = os.path.dirname(os.path.dirname(os.path.abspath(__file__)))
ALL = [f"C{n:02d}" for n in range(1, 21)]
PREFIX = {"mux_": "C04,C05", "mm_": "C02,C03,C18", "arb_": "C08,C09", "wbdec_": "C07", "br_": "C10",
          "sram_": "C15", "evm_": "C13,C14", "csrevm_": "C14", "reg_": "C11", "act_": "C12",
          "gpio_": "C16", "bld_": "C17", "csrdec_": "C06", "soc_": "C01",
          "regress_F4": "C14,C20", "regress_F10": "C20", "regress_F": "C19",
          # behaviour-preserving refactorings written by sub-agents, one source file each: every
          # check whose world builds on that file
          "agent_memory": "C02,C03,C18,C17,C06,C07,C01,C19",
          "agent_csrbus": "C04,C05,C06,C01,C14,C16,C10,C19,C20",
          "agent_csrreg": "C11,C12,C17,C01,C16,C19,C20", "agent_csraction": "C12,C16,C19",
          "agent_csrevent": "C14,C01,C19,C20", "agent_event": "C13,C14,C01,C19,C20",
          "agent_csrwb": "C10,C01,C19,C20", "agent_wbbus": "C07,C08,C09,C01,C19,C20",
          "agent_wbsram": "C15,C01,C19,C20", "agent_gpio": "C16,C01,C19,C20"}


def props_for(name):
    for k in sorted(PREFIX, key=len, reverse=True):
        if name.startswith(k):
            return PREFIX[k].split(",")
    return ALL


def run_patch(patch, props, tests=True):
    tmp = tempfile.mkdtemp(prefix="verif-sens-", dir="/tmp")
    out = {"checks": {}}
    try:
        rp = os.path.join(tmp, "repo")
        os.makedirs(rp)
        for item in ("amaranth_soc", "tests", "pyproject.toml"):
            s = os.path.join("/repo", item)
            if os.path.isdir(s):
                shutil.copytree(s, os.path.join(rp, item), ignore=shutil.ignore_patterns("__pycache__"))
            else:
                shutil.copy(s, rp)
        r = subprocess.run(["patch", "-p1", "-s", "-d", rp, "-i", patch], capture_output=True, text=True)
        if r.returncode:
            out["error"] = "patch does not apply"
            return out
        if tests:
            t = subprocess.run(["/venv/bin/python", "-m", "pytest", "-q", "-x", "-p", "no:cacheprovider",
                                "--timeout=120", "tests"], cwd=rp, capture_output=True, text=True,
                               env=dict(os.environ, PYTHONPATH=rp))
            out["repo_tests"] = t.stdout.strip().splitlines()[-1] if t.stdout.strip() else "?"
        for p in props:
            t0 = time.time()
            c = subprocess.run([os.path.join(VERIF, "check"), p], cwd=VERIF, capture_output=True,
                               text=True, env=dict(os.environ, VERIF_REPO=rp, VERIF_STOP_ON_FIRST="1",
                                                   VERIF_SHRINK=os.environ.get("VERIF_SHRINK", "0")))
            v = [l for l in c.stdout.splitlines() if l.startswith("violation:")]
            out["checks"][p] = {"exit": c.returncode, "wall_s": round(time.time() - t0, 1),
                                "first": v[0][:260] if v else ""}
    finally:
        shutil.rmtree(tmp, ignore_errors=True)
    return out


def main():
    cross = "--cross" in sys.argv
    only = [a for a in sys.argv[1:] if not a.startswith("--")]
    path = os.environ.get("SENS_DB") or os.path.join(VERIF, "selftest", "sensitivity.json")
    db = json.load(open(path)) if os.path.exists(path) else {}
    items = []
    for f in sorted(glob.glob(os.path.join(VERIF, "selftest", "mutants", "*.diff"))):
        items.append((os.path.basename(f)[:-5], f, "mutant"))
    for d in sorted(glob.glob(os.path.join(VERIF, "seeded", "*"))):
        if os.path.exists(os.path.join(d, "patch.diff")):
            items.append(("seed:" + os.path.basename(d), os.path.join(d, "patch.diff"), "seeded"))
    for f in sorted(glob.glob(os.path.join(VERIF, "selftest", "benign", "*.diff"))):
        items.append(("benign:" + os.path.basename(f)[:-5], f, "benign"))
    work = []
    for name, patch, kind in items:
        if only and not any(o in name for o in only):
            continue
        if kind == "seeded":
            meta = json.load(open(os.path.join(os.path.dirname(patch), "meta.json")))
            props = [meta["breaks_property"]] + [c.split(":")[0] for c in meta.get("caught_by", [])
                                                 if c.split(":")[0] != meta["breaks_property"]]
        elif kind == "benign":
            props = ALL if cross else props_for(name.split(":", 1)[1])
        else:
            props = props_for(name)
        if cross:
            props = ALL
        work.append((name, patch, kind, props))
    par = int(os.environ.get("SENS_PAR", "4"))
    os.environ.setdefault("VERIF_JOBS", str(max(1, 16 // par)))
    import concurrent.futures as cf
    with cf.ThreadPoolExecutor(max_workers=par) as ex:
        futs = {ex.submit(run_patch, patch, props): (name, kind, props)
                for name, patch, kind, props in work}
        for fut in cf.as_completed(futs):
            name, kind, props = futs[fut]
            res = fut.result()
            print(name, props, {p_: c_["exit"] for p_, c_ in res["checks"].items()}, flush=True)
            entry = db.setdefault(name, {"kind": kind, "checks": {}})
            entry["kind"] = kind
            if "repo_tests" in res:
                entry["repo_tests"] = res["repo_tests"]
            entry["checks"].update(res["checks"])
            json.dump(db, open(path, "w"), indent=1, sort_keys=True)
    if not os.environ.get("SENS_DB"):
        write_md(db)


def write_md(db):
    lines = ["# Which check catches which change", "",
             "Generated by tools/sensitivity_report.py (quick tier, VERIF_SEED=0). `X` = VIOLATION "
             "(exit 1), `.` = clean (exit 0), `!` = harness error. Patches whose repo tests fail are "
             "kept for sensitivity only; the seeded and regression patches all pass the 290 tests.", "",
             "| change | kind | repo tests | " + " | ".join(ALL) + " |",
             "|---|---|---|" + "---|" * len(ALL)]
    for name in sorted(db):
        e = db[name]
        row = []
        for p in ALL:
            c = e["checks"].get(p)
            row.append("" if c is None else {0: ".", 1: "X"}.get(c["exit"], "!"))
        lines.append(f"| {name} | {e['kind']} | {e.get('repo_tests', '')[:24]} | " + " | ".join(row) + " |")
    open(os.path.join(VERIF, "selftest", "SENSITIVITY.md"), "w").write("\n".join(lines) + "\n")


if __name__ == "__main__":
    main()
