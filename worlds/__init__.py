"""World registry: property id -> world."""
import importlib

_WORLD_MODULES = {
    "mux": "worlds.mux",
    "memmap": "worlds.memmap",
    "arbiter": "worlds.arbiter",
    "wbdec": "worlds.wbdec",
    "wb2csr": "worlds.wb2csr",
    "sram": "worlds.sram",
    "evmon": "worlds.evmon",
    "csrevmon": "worlds.csrevmon",
    "fields": "worlds.fields",
    "gpio": "worlds.gpio",
    "builder": "worlds.builder",
    "elab": "worlds.elab",
    "ports": "worlds.ports",
    "csrdec": "worlds.csrdec",
    "soc": "worlds.soc",
}
PROPERTY_WORLD = {
    "C04": "mux", "C05": "mux",
    "C07": "wbdec", "C10": "wb2csr", "C15": "sram", "C13": "evmon", "C14": "csrevmon", "C11": "fields", "C12": "fields", "C16": "gpio", "C17": "builder", "C19": "elab", "C20": "ports", "C06": "csrdec", "C01": "soc",
    "C08": "arbiter", "C09": "arbiter",
    "C02": "memmap", "C03": "memmap", "C18": "memmap",
}
_cache = {}


def get_world(name):
    if name not in _cache:
        mod = importlib.import_module(_WORLD_MODULES[name])
        _cache[name] = mod.WORLD
    return _cache[name]


def world_for(prop):
    return get_world(PROPERTY_WORLD[prop])
