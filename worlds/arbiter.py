"""World `arbiter` — C08 (single owner, isolation, no pre-emption) and C09 (round-robin fairness)
of wishbone.Arbiter.

System: the real Arbiter with N initiator interfaces and a shared-bus target agent.
Schedules: byzantine cycles (every initiator signal and every target response arbitrary each
cycle) followed by / or protocol mode (closed-loop initiators with think times, multi-transfer
cycles, lock holding, early release, CYC without STB; target with wait states, ERR/RTY, STALL).
The owner is inferred *observationally*: each initiator drives its index in the low bits of dat_w
(and adr), so no internal signal is read."""
from simkit.core import World, Violation
from simkit import hw

FEATS = ["err", "rty", "stall", "lock", "cti", "bte"]
CTI_VALUES = [0, 1, 2, 7]


class ArbiterWorld(World):
    name = "arbiter"
    properties = ("C08", "C09")
    real_components = ("wishbone.Arbiter",)
    stub_components = ("N Wishbone initiators (seeded agents)", "shared-bus target (seeded agent)")
    fault_kinds = ("byzantine_cycle", "lock_hold", "early_release", "cyc_without_stb",
                   "wait_state", "err_response", "rty_response", "stall", "spontaneous_response",
                   "contention", "rejected_add", "elaborated_while_still_being_populated",
                   "second_instance_in_process", "domain_reset", "very_long_locked_pause")
    assumptions = (
        "Amaranth's Python RTL simulator executes the elaborated netlist faithfully",
        "bounded liveness is asserted only in protocol mode (every owner eventually releases); "
        "the infinite-schedule formulation of C09 is decided through the exact next-owner "
        "function on every observed clock edge plus measured coverage of its domain",
    )

    def runs(self, prop, tier):
        return {"quick": 4000, "thorough": 60000}[tier]

    def state_targets(self, prop, states):
        out = {}
        key = "arbiter(n,owner,requests,busy)"
        if key in states:
            for n in range(1, 9):
                reached = sum(1 for s in states[key] if s.startswith(f"({n},"))
                # busy implies the owner requests: feasible = n * (2^n  + 2^(n-1))
                out[f"N={n}"] = {"reached": reached, "feasible": n * (2 ** n + 2 ** (n - 1))}
        key2 = "next_owner_domain(n,owner,requests)"
        if key2 in states:
            for n in range(1, 9):
                reached = sum(1 for s in states[key2] if s.startswith(f"({n},"))
                out[f"next-owner N={n}"] = {"reached": reached, "feasible": n * 2 ** n}
        return out

    # ------------------------------------------------------------------------------------------
    def gen_config(self, rng, prop):
        drng = rng.sub("dup")       # derived stream: leaves every other draw of the run unchanged
        dw = rng.choice([8, 16, 32, 64])
        g = rng.choice([x for x in (8, 16, 32, 64) if x <= dw])
        aw = rng.range(3, 8)
        feats = rng.subset(FEATS)
        n = rng.range(1, 5) if not rng.chance(0.12) else rng.range(6, 8)
        if rng.chance(0.04):
            n = rng.range(9, 18)        # more initiators than any small-N special case covers
            aw = max(aw, 6)
        big = rng.below(1000)
        if big < 3:
            n = rng.range(101, 104)     # three-digit indices
            aw = max(aw, 8)
        elif big in (3, 4):
            n = rng.range(258, 260)     # indices beyond one byte
            aw = max(aw, 10)
            if dw == 8:
                dw = 16
                g = min(g, dw)
        intrs = []
        for i in range(n):
            ig = rng.choice([x for x in (8, 16, 32, 64) if g <= x <= dw])
            f = rng.subset(FEATS)
            if not rng.chance(0.10):
                for o in ("err", "rty"):
                    if o in feats and o not in f:
                        f.append(o)
            intrs.append({"g": ig, "feats": sorted(f)})
        mode = rng.wchoice([("byz", 4), ("proto", 3), ("mixed", 3)])
        if 2 <= n <= 8 and drng.chance(0.07):
            # the same Interface object is added more than once (add() has no rule against it):
            # that initiator holds several slots of the round-robin order
            for _ in range(drng.range(1, 2)):
                j = drng.range(1, n - 1)
                k = drng.below(j)
                if "same_as" not in intrs[k]:
                    intrs[j] = dict(intrs[k], same_as=k)
        return {"aw": aw, "dw": dw, "g": g, "feats": sorted(feats), "intrs": intrs, "mode": mode,
                "feats_as": rng.choice(["str", "str", "enum", "frozenset", "list", "tuple"]),
                "mid_elab": rng.range(1, n) if (n > 1 and rng.chance(0.12)) else None,
                "decoy": int(rng.chance(0.1)),
                "reset_at": rng.range(5, 60) if rng.chance(0.15) else None,
                "omit": int(rng.chance(0.3)),
                "bad_add": rng.choice(["aw", "dw", "gran", "not_interface"]) if rng.chance(0.12)
                else None}

    def gen_ops(self, rng, config, prop):
        ops = []
        n = len(config["intrs"])
        dw, aw = config["dw"], config["aw"]
        mode = config["mode"]
        if mode in ("byz", "mixed"):
            p_cyc = rng.choice([0.2, 0.5, 0.5, 0.8])
            span = (rng.range(40, 120) if mode == "byz" else rng.range(15, 50)) if n <= 18 \
                else rng.range(10, 20)
            for t in range(span):
                iv = []
                for i in range(n):
                    ig = config["intrs"][i]["g"]
                    iv.append([int(rng.chance(p_cyc)), rng.below(2), rng.below(2),
                               int(rng.chance(0.3)), rng.bits(dw // ig), rng.bits(aw), rng.bits(dw),
                               rng.choice(CTI_VALUES), rng.below(4)])
                ops.append({"k": "byz", "i": iv,
                            "t": [rng.below(2), rng.below(2), rng.below(2), rng.below(2),
                                  rng.bits(dw)]})
        if mode in ("proto", "mixed"):
            for _ in range(rng.range(6, 24) if n <= 18 else rng.range(4, 8)):
                ops.append({"k": "burst", "i": rng.below(n) if (n <= 18 or rng.chance(0.4))
                            else n - 1 - rng.below(3),        # the far end of a long list
                            "think": rng.range(0, 6),
                            "xfers": rng.range(1, 3), "lock": int(rng.chance(0.4)),
                            "gap": rng.choice([0, 0, 1, 2]),
                            "abandon": rng.range(1, 3) if rng.chance(0.12) else None,
                            "we": rng.below(2), "sel": rng.bits(8), "adr": rng.bits(aw),
                            "dat": rng.bits(dw)})
                if rng.chance(0.002) and n <= 8:
                    # a very long locked pause between two transfers of one cycle
                    ops[-1].update(lock=1, xfers=2, gap=rng.range(1030, 1100), abandon=None)
            for _ in range(rng.range(10, 40)):
                ops.append({"k": "resp", "delay": rng.choice([0, 0, 0, 1, 2, 3]),
                            "kind": rng.choice(["ack", "ack", "ack", "err", "rty"]),
                            "stall": rng.choice([0, 0, 1]), "dat": rng.bits(dw)})
        return ops

    # ------------------------------------------------------------------------------------------
    def run(self, config, ops, props, stats, hist):
        from amaranth_soc import wishbone
        aw, dw, g = config["aw"], config["dw"], config["g"]
        feats = set(config["feats"])
        # the documented type of a feature is wishbone.Feature; strings are accepted too
        spell = hw.feature_speller(config.get("feats_as"))
        dut = hw.must_accept("C08" if "C08" in props else "C09",
                             f"wishbone.Arbiter(addr_width={aw}, data_width={dw}, granularity={g}, "
                             f"features={sorted(feats)})", wishbone.Arbiter,
                             **hw.spelled(config.get("omit"), {"granularity": dw, "features": set()},
                                          addr_width=aw, data_width=dw, granularity=g,
                                          features=spell(feats)))
        me = "C08" if "C08" in props else "C09"

        def need_members(iface, fs, what):
            # every requested optional signal must exist (it is forwarded / decides when the bus
            # counts as held); however the feature collection was spelled
            for f_ in FEATS:
                if (f_ in fs) != hasattr(iface, f_):
                    raise Violation(me, "optional-signal-does-not-follow-requested-features", 0,
                                    f"{what}: features {sorted(fs)} (given as "
                                    f"{config.get('feats_as', 'set')}) but signal {f_!r} is "
                                    f"{'present' if hasattr(iface, f_) else 'missing'}",
                                    key=f"feature-signal:{f_}")
        need_members(dut.bus, feats, "arbiter bus")
        intrs = []
        built = {}
        mid = config.get("mid_elab")
        for i, ic in enumerate(config["intrs"]):
            if mid is not None and i == mid and i > 0:
                # API-order fault: the arbiter is elaborated once (e.g. converted) while it is
                # still being populated; more initiators are added afterwards
                hw.elaborate_once(dut)
                stats.fault("elaborated_while_still_being_populated")
            if ic.get("same_as") is not None and int(ic["same_as"]) in built:
                # fault: an Interface object that is already an initiator is added once more
                ib = built[int(ic["same_as"])]
                ic = dict(config["intrs"][int(ic["same_as"])])
                stats.fault("same_interface_added_again")
            else:
                ib = hw.construct(wishbone.Interface, addr_width=aw, data_width=dw,
                                  granularity=ic["g"], features=spell(ic["feats"]), path=(f"i{i}",))
            built[i] = ib
            need_members(ib, set(ic["feats"]), f"initiator {i}")
            if all(o in ic["feats"] for o in ("err", "rty") if o in feats):
                hw.must_accept("C08" if "C08" in props else "C09",
                               f"Arbiter.add(initiator granularity={ic['g']}, features={ic['feats']})",
                               dut.add, ib)
            else:
                # fault: an initiator the arbiter has to refuse; the caller carries on
                try:
                    dut.add(ib)
                    raise Violation("C08" if "C08" in props else "C09",
                                    "initiator-without-required-input-accepted", 0, f"{ic}")
                except ValueError:
                    stats.fault("rejected_add")
                    continue
            intrs.append((ib, ic["g"], set(ic["feats"])))
        if config.get("bad_add"):
            # fault: an add() the arbiter has to refuse (and survive unchanged)
            kind = config["bad_add"]
            bad = None
            if kind == "aw":
                bad = wishbone.Interface(addr_width=aw + 1, data_width=dw, granularity=g,
                                         features=spell(feats))
            elif kind == "dw" :
                odw = dw * 2 if dw < 64 else dw // 2
                if odw >= g:
                    bad = wishbone.Interface(addr_width=aw, data_width=odw, granularity=max(g, min(odw, g)),
                                             features=spell(feats))
            elif kind == "gran" and g > 8:
                bad = wishbone.Interface(addr_width=aw, data_width=dw, granularity=g // 2,
                                         features=spell(feats))
            elif kind == "not_interface":
                bad = object()
            if bad is not None:
                try:
                    dut.add(bad)
                    raise Violation(me, "invalid-initiator-accepted", 0,
                                    f"add() accepted an initiator it must refuse ({kind})",
                                    key=f"invalid-initiator-accepted:{kind}")
                except (ValueError, TypeError):
                    stats.fault("rejected_add")
        if config.get("decoy"):
            # a second arbiter is built afterwards in the same process (state shared between
            # instances must not leak into the first)
            d2 = wishbone.Arbiter(addr_width=aw, data_width=dw, granularity=g, features=spell(feats))
            for ic in config["intrs"][:2]:
                try:
                    d2.add(wishbone.Interface(addr_width=aw, data_width=dw, granularity=ic["g"],
                                              features=spell(ic["feats"])))
                except ValueError:
                    pass
            hw.elaborate_once(d2)
            stats.fault("second_instance_in_process")
        n = len(intrs)
        # slot -> first slot holding the same Interface object (itself unless added repeatedly)
        base = [next(k for k in range(n) if intrs[k][0] is intrs[i][0]) for i in range(n)]
        dup_mode = any(base[i] != i for i in range(n))
        if n == 0:
            from simkit.core import Refused
            raise Refused("no initiators")
        top, rst = hw.make_top_with_reset(dut)
        sim = hw.build_sim(top)
        b = dut.bus
        reset_at = config.get("reset_at")
        tagbits = max(3, (len(config["intrs"]) - 1).bit_length())
        tagmask = (1 << tagbits) - 1
        c08 = "C08" in props
        c09 = "C09" in props

        byz_ops = [op for op in ops if op.get("k") == "byz"]
        bursts = [[] for _ in range(n)]
        for op in ops:
            if op.get("k") == "burst":
                bursts[base[int(op.get("i", 0)) % n]].append(op)
        resps = [op for op in ops if op.get("k") == "resp"]
        proto_cap = 0 if config["mode"] == "byz" else 40 + 12 * sum(len(q) for q in bursts) + \
            sum(int(b_.get("gap") or 0) for q in bursts for b_ in q if int(b_.get("gap") or 0) >= 1000)

        def norm_byz_vec(i, v):
            ib, ig, f = intrs[i]
            v = list(v) + [0] * (9 - len(v))
            d = dict(cyc=v[0] & 1, stb=v[1] & 1, we=v[2] & 1, sel=v[4] & ((1 << (dw // ig)) - 1),
                     adr=((v[5] & ((1 << aw) - 1)) & ~tagmask) | i,
                     dat_w=((v[6] & ((1 << dw) - 1)) & ~tagmask) | i)
            if "lock" in f:
                d["lock"] = v[3] & 1
            if "cti" in f:
                d["cti"] = v[7] if v[7] in CTI_VALUES else 0
            if "bte" in f:
                d["bte"] = v[8] & 3
            return d

        async def tb(ctx):
            p = hw.Pins(ctx)
            prev_owner = prev_busy = prev_req = None
            poss = None      # dup_mode: slots the grant register may be in, given all observations
            # protocol agents' state
            ist = [{"q": list(bursts[i]), "phase": "idle", "think": None, "cur": None,
                    "left": 0, "gapleft": 0, "waited": 0} for i in range(n)]
            rq = list(resps)
            tstate = {"seen": 0, "cur": None}
            waiting = [None] * n     # liveness: {"since": t, "others": count}
            t = 0
            byz_i = 0
            proto_t = 0
            while True:
                in_byz = byz_i < len(byz_ops)
                if not in_byz:
                    if proto_cap == 0 or proto_t >= proto_cap:
                        break
                    if all(s["phase"] == "idle" and not s["q"] for s in ist) and proto_t > 0:
                        break
                drv = []
                if in_byz:
                    op = byz_ops[byz_i]
                    ivs = op.get("i") or []
                    for i in range(n):
                        drv.append(norm_byz_vec(i, ivs[i] if i < len(ivs) else [])
                                   if base[i] == i else drv[base[i]])
                    stats.fault("byzantine_cycle")
                else:
                    for i in range(n):
                        ib, ig, f = intrs[i]
                        s = ist[i]
                        if s["phase"] == "idle" and s["q"]:
                            if s["think"] is None:
                                s["think"] = min(int(s["q"][0].get("think", 0)), 8)
                            if s["think"] <= 0:
                                s["cur"] = s["q"].pop(0)
                                s["phase"] = "xfer"
                                s["left"] = max(1, min(int(s["cur"].get("xfers", 1)), 4))
                                s["waited"] = 0
                                s["think"] = None
                            else:
                                s["think"] -= 1
                        if base[i] != i:
                            drv.append(drv[base[i]])
                            continue
                        d = dict(cyc=0, stb=0, we=0, sel=0, adr=i, dat_w=i)
                        if "lock" in f:
                            d["lock"] = 0
                        if "cti" in f:
                            d["cti"] = 0
                        if "bte" in f:
                            d["bte"] = 0
                        if s["phase"] in ("xfer", "gap"):
                            c = s["cur"]
                            d["cyc"] = 1
                            d["stb"] = 1 if s["phase"] == "xfer" else 0
                            d["we"] = int(c.get("we", 0)) & 1
                            d["sel"] = int(c.get("sel", 0)) & ((1 << (dw // ig)) - 1)
                            d["adr"] = ((int(c.get("adr", 0)) & ((1 << aw) - 1)) & ~tagmask) | i
                            d["dat_w"] = ((int(c.get("dat", 0)) & ((1 << dw) - 1)) & ~tagmask) | i
                            if "lock" in f and c.get("lock"):
                                d["lock"] = 1
                                stats.fault("lock_hold")
                            if s["phase"] == "gap":
                                stats.fault("cyc_without_stb")
                        drv.append(d)
                for i in range(n):
                    ib = intrs[i][0]
                    for k, v in drv[i].items():
                        p.set(getattr(ib, k), v)
                # ---- target ---------------------------------------------------------------
                tr = dict(ack=0, dat_r=0)
                for o in ("err", "rty", "stall"):
                    if o in feats:
                        tr[o] = 0
                if in_byz:
                    tv = list(byz_ops[byz_i].get("t") or []) + [0] * 5
                    tr["ack"] = tv[0] & 1
                    if "err" in feats:
                        tr["err"] = tv[1] & 1
                    if "rty" in feats:
                        tr["rty"] = tv[2] & 1
                    if "stall" in feats:
                        tr["stall"] = tv[3] & 1
                    tr["dat_r"] = tv[4] & ((1 << dw) - 1)
                    if tr["ack"] and not (p.get(b.cyc) and p.get(b.stb)):
                        stats.fault("spontaneous_response")
                else:
                    if p.get(b.cyc) and p.get(b.stb):
                        if tstate["cur"] is None:
                            tstate["cur"] = rq.pop(0) if rq else {"delay": 0, "kind": "ack"}
                            tstate["seen"] = 0
                        c = tstate["cur"]
                        if tstate["seen"] >= min(int(c.get("delay", 0)), 4):
                            kind = c.get("kind", "ack")
                            if kind == "err" and "err" in feats:
                                tr["err"] = 1
                                stats.fault("err_response")
                            elif kind == "rty" and "rty" in feats:
                                tr["rty"] = 1
                                stats.fault("rty_response")
                            else:
                                tr["ack"] = 1
                            tr["dat_r"] = int(c.get("dat", 0)) & ((1 << dw) - 1)
                        else:
                            stats.fault("wait_state")
                            if "stall" in feats and c.get("stall"):
                                tr["stall"] = 1
                                stats.fault("stall")
                    else:
                        # bus idle or stb dropped: an unanswered request is forgotten
                        tstate["cur"] = None
                        tstate["seen"] = 0
                for k, v in tr.items():
                    p.set(getattr(b, k), v)
                # ---- observe --------------------------------------------------------------
                owner = p.get(b.dat_w) & tagmask
                if owner >= n:
                    if c08:
                        raise Violation("C08", "no-single-owner", t,
                                        f"shared dat_w tag {owner} is no initiator (N={n})")
                    break
                ib, ig, f = intrs[owner]
                d = drv[owner]
                ratio = ig // g
                fsel = 0
                for k in range(dw // ig):
                    if (d["sel"] >> k) & 1:
                        fsel |= ((1 << ratio) - 1) << (k * ratio)
                obs = [owner]
                if c08:
                    exp = dict(adr=d["adr"], dat_w=d["dat_w"], we=d["we"], stb=d["stb"],
                               cyc=d["cyc"], sel=fsel)
                    if "lock" in feats:
                        exp["lock"] = d.get("lock", 0)
                    if "cti" in feats:
                        exp["cti"] = d.get("cti", 0)
                    if "bte" in feats:
                        exp["bte"] = d.get("bte", 0)
                    for k, v in exp.items():
                        got = p.get(getattr(b, k))
                        obs.append(got)
                        stats.checks += 1
                        if got != v:
                            raise Violation("C08", "shared-bus-not-owners-request", t,
                                            f"bus.{k}={got:#x} but owner {owner} drives {v:#x}")
                    for i, (jb, jg, jf) in enumerate(intrs):
                        if base[i] != i:
                            continue
                        ga = p.get(jb.ack)
                        obs.append(ga)
                        stats.checks += 1
                        if i == owner:
                            if ga != tr["ack"]:
                                raise Violation("C08", "owner-response-wrong", t,
                                                f"owner {i} ack={ga} target ack={tr['ack']}")
                            for o in ("err", "rty"):
                                if o in jf and p.get(getattr(jb, o)) != tr.get(o, 0):
                                    raise Violation("C08", "owner-response-wrong", t,
                                                    f"owner {i} {o} differs from target")
                            if "stall" in jf:
                                xs = tr["stall"] if "stall" in feats else 1 - tr["ack"]
                                if p.get(jb.stall) == 1 and xs == 0 and base.count(i) > 1:
                                    # F12: an interface held in several slots has its stall
                                    # driven from the last slot's net only (own key, so every
                                    # other stall discrepancy is still reported)
                                    raise Violation("C08", "F12-owner-in-several-slots-stalled", t,
                                                    f"slots {base}: owner {i} stall=1, target says 0",
                                                    key="F12:interface-in-several-slots-stall-stuck")
                                if p.get(jb.stall) != xs:
                                    raise Violation("C08", "owner-stall-wrong", t,
                                                    f"owner {i} stall={p.get(jb.stall)} expected {xs}")
                        else:
                            if ga:
                                raise Violation("C08", "response-leaks-to-non-owner", t,
                                                f"initiator {i} sees ack while {owner} owns the bus")
                            for o in ("err", "rty"):
                                if o in jf and p.get(getattr(jb, o)):
                                    raise Violation("C08", "response-leaks-to-non-owner", t,
                                                    f"initiator {i} sees {o}")
                            if "stall" in jf and p.get(jb.stall) != 1:
                                raise Violation("C08", "non-owner-not-stalled", t, f"initiator {i}")
                if dup_mode and (poss is None or prev_owner is None):
                    poss = {s_ for s_ in range(n) if base[s_] == owner}
                busy = bool(d["cyc"] and ((d.get("lock", 0) or d["stb"]) if "lock" in feats else 1))
                req = [x["cyc"] for x in drv]
                if prev_owner is not None:
                    if prev_busy:
                        if c08:
                            stats.checks += 1
                            if owner != prev_owner:
                                raise Violation("C08", "pre-empted-mid-cycle", t,
                                                f"owner changed {prev_owner}->{owner} while busy")
                    else:
                        nxt = prev_owner
                        for k in range(1, n):
                            j = (prev_owner + k) % n
                            if prev_req[j]:
                                nxt = j
                                break
                        if c09 and dup_mode:
                            # the tag names the Interface object, not the slot: follow every slot
                            # the grant register can be in and ask each for its successor
                            def succ(s_):
                                for k in range(1, n):
                                    if prev_req[(s_ + k) % n]:
                                        return (s_ + k) % n
                                return s_
                            stats.checks += 1
                            new = {succ(s_) for s_ in poss} & \
                                {s_ for s_ in range(n) if base[s_] == owner}
                            if not new:
                                raise Violation("C09", "not-round-robin-successor", t,
                                                f"slots {base} (same number = same interface), grant "
                                                f"in {sorted(poss)}, requests {prev_req}: next owner "
                                                f"{owner} is the successor of none of them")
                            poss = new
                        elif c09:
                            stats.checks += 1
                            if owner != nxt:
                                cls = "moved-without-request" if nxt == prev_owner else \
                                    ("not-round-robin-successor" if owner != prev_owner
                                     else "requester-not-granted")
                                raise Violation("C09", cls, t,
                                                f"owner {prev_owner}, requests {prev_req}: next "
                                                f"owner {owner}, round-robin says {nxt}")
                    if owner != prev_owner:
                        stats.work += 1
                        if prev_req[prev_owner]:
                            stats.probe("grant_moved_while_prev_owner_still_asserts_cyc")
                if sum(req) > 1:
                    stats.fault("contention")
                stats.state("arbiter(n,owner,requests,busy)",
                            f"({n},{owner},{''.join(map(str, req))},{int(busy)})")
                if not busy:
                    stats.state("next_owner_domain(n,owner,requests)",
                                f"({n},{owner},{''.join(map(str, req))})")
                # ---- bounded liveness (protocol phase only) ---------------------------------
                if c09 and not in_byz:
                    for i in range(n):
                        if base[i] != i:
                            continue
                        if req[i] and owner != i:
                            if waiting[i] is None:
                                waiting[i] = {"since": t, "others": 0, "last": owner}
                            elif owner != waiting[i]["last"]:
                                waiting[i]["others"] += 1
                                waiting[i]["last"] = owner
                            stats.checks += 1
                            if waiting[i]["others"] > n - 1:
                                raise Violation("C09", "starved-beyond-N-1-grants", t,
                                                f"initiator {i} requesting since {waiting[i]['since']} "
                                                f"saw {waiting[i]['others']} grants to others (N={n})")
                        else:
                            if waiting[i] is not None and owner == i and waiting[i]["others"] > 0:
                                stats.probe("served_after_waiting_for_others")
                            waiting[i] = None
                hist.rec(t, obs, tr.get("ack"), owner)
                # ---- agents sample responses at the clock edge ---------------------------
                if not in_byz:
                    for i in range(n):
                        s = ist[i]
                        jb, jg, jf = intrs[i]
                        if s["phase"] == "xfer":
                            done = p.get(jb.ack) or ("err" in jf and p.get(jb.err)) or \
                                ("rty" in jf and p.get(jb.rty))
                            if done:
                                s["left"] -= 1
                                s["waited"] = 0
                                if s["left"] <= 0:
                                    s["phase"] = "idle"
                                    s["cur"] = None
                                else:
                                    g_ = int(s["cur"].get("gap", 0))
                                    s["gapleft"] = g_ if 1000 <= g_ <= 1200 else min(g_, 3)
                                    if g_ >= 1000:
                                        stats.fault("very_long_locked_pause")
                                    s["phase"] = "gap" if s["gapleft"] > 0 else "xfer"
                            else:
                                s["waited"] += 1
                                ab = s["cur"].get("abandon")
                                if ab is not None and s["waited"] >= max(1, int(ab)):
                                    s["phase"] = "idle"
                                    s["cur"] = None
                                    stats.fault("early_release")
                        elif s["phase"] == "gap":
                            s["gapleft"] -= 1
                            if s["gapleft"] <= 0:
                                s["phase"] = "xfer"
                    if p.get(b.cyc) and p.get(b.stb) and tstate["cur"] is not None:
                        if tr["ack"] or tr.get("err") or tr.get("rty"):
                            tstate["cur"] = None
                            tstate["seen"] = 0
                        else:
                            tstate["seen"] += 1
                    proto_t += 1
                else:
                    byz_i += 1
                prev_owner, prev_busy, prev_req = owner, busy, req
                if reset_at is not None and t == reset_at:
                    # fault: the clock domain is reset for one cycle. Every per-cycle invariant
                    # keeps being checked; continuity of ownership across the reset edge is not
                    # required (the arbiter restarts from its initial state).
                    p.set(rst, 1)
                    prev_owner = prev_busy = prev_req = None
                    waiting = [None] * n
                    stats.fault("domain_reset")
                elif reset_at is not None and t == reset_at + 1:
                    p.set(rst, 0)
                    prev_owner = prev_busy = prev_req = None
                t += 1
                await ctx.tick()
            stats.cycles += t

        hw.run_tb(sim, tb)

    # ------------------------------------------------------------------------------------------
    def simplify_op(self, op):
        if op.get("k") == "burst":
            if op.get("xfers", 1) > 1:
                yield dict(op, xfers=1)
            if op.get("lock"):
                yield dict(op, lock=0)
            if op.get("abandon") is not None:
                yield dict(op, abandon=None)
            if op.get("think"):
                yield dict(op, think=0)
        elif op.get("k") == "resp":
            if op.get("delay"):
                yield dict(op, delay=0)
            if op.get("kind") != "ack":
                yield dict(op, kind="ack")

    def shrink_config(self, config, ops):
        intrs = config["intrs"]
        if len(intrs) > 1:
            for j in range(len(intrs) - 1, -1, -1):
                rest = []
                for ic in intrs[:j] + intrs[j + 1:]:
                    sa = ic.get("same_as")
                    if sa is not None:
                        ic = dict(ic)
                        if sa == j:
                            del ic["same_as"]
                        elif sa > j:
                            ic["same_as"] = sa - 1
                    rest.append(ic)
                c = dict(config, intrs=rest)
                o = []
                for op in ops:
                    if op.get("k") == "byz":
                        iv = list(op.get("i") or [])
                        op = dict(op, i=iv[:j] + iv[j + 1:])
                    elif op.get("k") == "burst":
                        i = int(op.get("i", 0)) % len(intrs)
                        if i == j:
                            continue
                        op = dict(op, i=i - 1 if i > j else i)
                    o.append(op)
                yield c, o
        for f in config["feats"]:
            yield dict(config, feats=[x for x in config["feats"] if x != f]), ops
        for j, ic in enumerate(intrs):
            for f in ic["feats"]:
                if f in ("err", "rty") and f in config["feats"]:
                    continue
                yield dict(config, intrs=intrs[:j] + [dict(ic, feats=[x for x in ic["feats"]
                                                                       if x != f])] + intrs[j + 1:]), ops

    def sample(self, config, ops):
        return {"config": config, "first_ops": ops[:3], "n_ops": len(ops)}


WORLD = ArbiterWorld()
