"""World `builder` — C17: csr.Builder lays registers out deterministically at the promised offsets.

No clock: a call history on one csr.Builder (add with names, widths and offsets valid and invalid,
nested Cluster/Index scopes incl. invalid ones, duplicate registers and names, freeze,
as_memory_map possibly twice, add after freeze) against a layout model written from the property
text. Rejected calls are the fault kind."""
from contextlib import ExitStack

from simkit.core import World, Violation, Refused


def clog2(n):
    return (n - 1).bit_length() if n > 0 else 0


def conflict(n, names):
    for m in names:
        k = min(len(n), len(m))
        if tuple(n[:k]) == tuple(m[:k]):
            return True
    return False


class BuilderWorld(World):
    name = "builder"
    clocked = False
    properties = ("C17",)
    real_components = ("csr.Builder", "memory.MemoryMap (through as_memory_map)", "csr.Register")
    stub_components = ()
    fault_kinds = ("rejected_add", "invalid_name", "invalid_offset", "misaligned_offset",
                   "duplicate_register", "add_after_freeze", "invalid_scope",
                   "exception_unwinds_scopes", "second_builder_used_meanwhile",
                   "layout_rejected_overlap", "layout_rejected_name", "layout_rejected_overflow")
    assumptions = (
        "no clock and no concurrency exist for this property: sequential model-based conformance "
        "over seeded call histories with rejected calls as faults",
    )

    def runs(self, prop, tier):
        return {"quick": 20000, "thorough": 300000}[tier]

    def rule(self, prop):
        return ("cases = seeded call histories on one csr.Builder; non-trivial = at least one "
                "register accepted and at least one rejected call or rejected layout; distinct = "
                "distinct (config, ops, observed-history) digests")

    def gen_config(self, rng, prop):
        g = rng.choice([8, 8, 4, 16])
        return {"aw": rng.range(1, 6), "dw": g * rng.choice([1, 1, 2, 4, 3, 5, 6]), "g": g}

    def gen_ops(self, rng, config, prop):
        aw, dw, g = config["aw"], config["dw"], config["g"]
        ops = []
        depth = 0
        for _ in range(rng.range(6, 24)):
            k = rng.below(100)
            if k < 55:
                op = {"k": "add", "name": rng.choice(["a", "b", "c", "d", "0", "1"]),
                      "w": rng.choice([0, 1, dw - 1, dw, dw + 1, 2 * dw, 3 * dw, 4 * dw + 1]),
                      "off": None if rng.chance(0.6) else rng.below((1 << aw) * (dw // g) + 2)}
                f = rng.below(100)
                if f < 4:
                    op["name"] = rng.choice(["", None, 5])
                elif f < 7:
                    op["off"] = rng.choice([-1, "4", 1.5])
                elif f < 11:
                    op["dup"] = rng.below(6)
                if depth and rng.chance(0.3):
                    op["unwind"] = rng.range(1, depth)   # only takes effect if the add is rejected
                    if f < 11:
                        depth -= min(depth, op["unwind"])
                ops.append(op)
            elif k < 72 and depth < 3:
                sc = rng.choice(["x", "y", 0, 1, "a", "0", "1"])
                if rng.chance(0.08):
                    sc = rng.choice(["", -1, None])
                ops.append({"k": "enter", "scope": sc, "idx": isinstance(sc, int) if sc is not None
                            else rng.chance(0.5)})
                depth += 1
            elif k < 85 and depth > 0:
                ops.append({"k": "leave"})
                depth -= 1
            elif k < 87:
                ops.append({"k": "freeze"})
            elif k < 91:
                ops.append({"k": "other", "name": rng.choice(["a", "b"]), "w": rng.choice([1, dw]),
                            "scope": rng.choice([None, "x", 0])})
            elif k < 89:
                ops.append({"k": "map"})
        return ops

    def run(self, config, ops, props, stats, hist):
        from amaranth_soc import csr
        aw, dw, g = config["aw"], config["dw"], config["g"]
        try:
            b = csr.Builder(addr_width=aw, data_width=dw, granularity=g)
        except (ValueError, TypeError) as e:
            raise Refused(str(e))
        model = []      # (reg, path, width, offset)
        frozen = False
        scopes = []
        regs = []

        def V(cls, step, detail):
            return Violation("C17", cls, step, detail)

        def expected_layout():
            items, names, cursor = [], [], 0
            for reg, path, w, off in model:
                size = max(1, -(-w // dw))
                size_r = 1 << clog2(size)
                if off is not None:
                    start = off * g // dw
                else:
                    start = -(-cursor // size_r) * size_r
                end = start + size_r
                if conflict(path, names):
                    return None, "name"
                if end > (1 << aw):
                    return None, "overflow"
                if any(not (e <= start or s >= end) for s, e, _ in items):
                    return None, "overlap"
                items.append((start, end, path))
                names.append(path)
                cursor = end
            return items, None

        def check_map(step):
            nonlocal frozen
            exp, why = expected_layout()
            try:
                mm = b.as_memory_map()
                ok = True
            except ValueError:
                ok = False
            frozen = True
            stats.checks += 1
            if ok and exp is None:
                raise V("bad-layout-silently-accepted", step,
                        f"layout with a {why} problem was turned into a memory map: "
                        f"{[(tuple(n), rg) for _, n, rg in mm.resources()]}")
            if not ok and exp is not None:
                raise V("valid-layout-rejected", step, f"expected {exp}")
            if not ok:
                stats.fault("layout_rejected_" + why)
                return
            got = sorted((s, e, tuple(n)) for r, n, (s, e) in mm.resources())
            stats.checks += 1
            if got != sorted(exp):
                raise V("register-not-at-promised-address", step,
                        f"as_memory_map() = {got}, placement rule gives {sorted(exp)}")
            for r, n, (s, e) in mm.resources():
                ent = [m_ for m_ in model if m_[0] is r]
                if len(ent) != 1 or tuple(ent[0][1]) != tuple(n):
                    raise V("register-named-wrongly", step, f"{tuple(n)}")
            stats.work += 1

        def leave_scope(step):
            try:
                ctxs.pop().__exit__(None, None, None)
            except Exception as e:
                raise V("leaving-a-scope-raised", step,
                        f"{type(e).__name__} on leaving scope {scopes[-1]!r} of {scopes}")
            scopes.pop()

        with ExitStack() as stack:
            ctxs = []
            for step, op in enumerate(ops):
                k = op.get("k")
                stats.steps += 1
                if k == "add":
                    name, w, off = op.get("name"), int(op.get("w", 0)), op.get("off")
                    dup = op.get("dup")
                    if dup is not None and regs:
                        reg, w = regs[int(dup) % len(regs)]   # the register keeps its own width
                        is_dup = any(m_[0] is reg for m_ in model)
                    else:
                        reg = csr.Register(csr.Field(csr.action.R if w else csr.action.ResR0W0, w),
                                           access="r")
                        regs.append((reg, w))
                        is_dup = False
                    try:
                        r = b.add(name, reg, offset=off)
                        ok = True
                        exc = None
                    except (ValueError, TypeError) as ex:
                        ok = False
                        exc = ex
                    name_ok = isinstance(name, str) and bool(name)
                    off_ok = off is None or (isinstance(off, int) and not isinstance(off, bool)
                                             and off >= 0 and off % (dw // g) == 0)
                    legal = (not frozen) and name_ok and off_ok and not is_dup
                    stats.checks += 1
                    if ok != legal:
                        cls = "add-after-freeze-accepted" if (ok and frozen) else \
                            ("invalid-add-accepted" if ok else "valid-add-rejected")
                        raise V(cls, step, f"add({name!r}, width {w}, offset={off!r}) "
                                           f"{'accepted' if ok else 'rejected'}; frozen={frozen}")
                    if ok:
                        if r is not reg:
                            raise V("add-does-not-return-register", step, "")
                        model.append((reg, tuple(scopes) + (name,), w, off))
                        stats.work += 1
                    else:
                        stats.fault("rejected_add")
                        if frozen:
                            stats.fault("add_after_freeze")
                        elif not name_ok:
                            stats.fault("invalid_name")
                        elif is_dup:
                            stats.fault("duplicate_register")
                        elif isinstance(off, int) and off >= 0:
                            stats.fault("misaligned_offset")
                        else:
                            stats.fault("invalid_offset")
                    hist.rec(step, "add", ok)
                    if not ok and op.get("unwind") and ctxs:
                        # the rejected call's exception propagates out of the enclosing `with`
                        # blocks (the caller catches it further out and keeps using the builder)
                        for _ in range(min(len(ctxs), int(op["unwind"]))):
                            cm = ctxs.pop()
                            try:
                                swallowed = cm.__exit__(type(exc), exc, exc.__traceback__)
                            except Exception as e2:
                                if e2 is not exc:
                                    raise V("leaving-a-scope-raised", step,
                                            f"{type(e2).__name__} while unwinding scope "
                                            f"{scopes[-1]!r}")
                                swallowed = False
                            if swallowed:
                                raise V("scope-swallowed-exception", step, f"{scopes[-1]!r}")
                            scopes.pop()
                        stats.fault("exception_unwinds_scopes")
                elif k == "enter":
                    sc = op.get("scope")
                    use_index = bool(op.get("idx"))
                    try:
                        cm = b.Index(sc) if use_index else b.Cluster(sc)
                        cm.__enter__()
                        ok = True
                    except TypeError:
                        ok = False
                    legal = (isinstance(sc, int) and not isinstance(sc, bool) and sc >= 0) \
                        if use_index else (isinstance(sc, str) and bool(sc))
                    stats.checks += 1
                    if ok != legal:
                        raise V("scope-accept-mismatch", step,
                                f"{'Index' if use_index else 'Cluster'}({sc!r}) "
                                f"{'accepted' if ok else 'rejected'}")
                    if ok:
                        ctxs.append(cm)
                        scopes.append(sc)
                    else:
                        stats.fault("invalid_scope")
                    hist.rec(step, "enter", ok)
                elif k == "leave":
                    if ctxs:
                        leave_scope(step)
                elif k == "freeze":
                    b.freeze()
                    frozen = True
                elif k == "other":
                    # a second builder is used while scopes of the first are open
                    b2 = csr.Builder(addr_width=aw, data_width=dw, granularity=g)
                    r2 = csr.Register(csr.Field(csr.action.R, max(1, int(op.get("w", 1)))), access="r")
                    sc2 = op.get("scope")
                    if sc2 is None:
                        b2.add(op.get("name", "a"), r2)
                        want2 = (op.get("name", "a"),)
                    else:
                        with (b2.Index(sc2) if isinstance(sc2, int) else b2.Cluster(sc2)):
                            b2.add(op.get("name", "a"), r2)
                        want2 = (sc2, op.get("name", "a"))
                    got2 = [tuple(n) for _, n, _ in b2.as_memory_map().resources()]
                    stats.checks += 1
                    stats.fault("second_builder_used_meanwhile")
                    if got2 != [want2]:
                        raise V("register-named-wrongly", step,
                                f"a second builder names its register {got2}, expected {[want2]} "
                                f"(open scopes of the first builder: {scopes})")
                elif k == "map":
                    check_map(step)
                    hist.rec(step, "map")
            while ctxs:
                leave_scope(len(ops))
            check_map(len(ops))
            check_map(len(ops) + 1)      # twice: same layout, still frozen
            stats.state("layout(size,frozen_mid)", f"{min(len(model), 8)}")

    def simplify_op(self, op):
        if op.get("k") == "add":
            if op.get("off") is not None:
                yield dict(op, off=None)
            if op.get("w", 0) > 1:
                yield dict(op, w=1)
            if op.get("dup") is not None:
                yield {k: v for k, v in op.items() if k != "dup"}

    def shrink_config(self, config, ops):
        if config["dw"] != config["g"]:
            yield dict(config, dw=config["g"]), ops
        if config["g"] != 8:
            yield dict(config, g=8, dw=8 * (config["dw"] // config["g"])), ops

    def sample(self, config, ops):
        return {"config": config, "ops": ops}


WORLD = BuilderWorld()
