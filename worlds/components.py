"""Component factories shared by worlds `elab` (C19) and `ports` (C20): for every component class
a seeded configuration generator (reusing the generators of the other worlds, so unaligned
multiplexer layouts with every sharing limit, all Wishbone feature subsets, nested field
collections, builder scopes ... are all included) and a builder that returns the real component
together with every signal the harness may drive or observe."""
from simkit.core import Refused
from simkit import hw


class Built:
    def __init__(self, dut, cls_name):
        self.dut = dut
        self.cls_name = cls_name
        self.inputs = []      # (name, signal) the harness drives
        self.outputs = []     # (name, signal) the harness observes
        self.maps = []        # memory maps whose reports must not change
        self.event_maps = []
        self.port = None      # (attribute name, role) role: "target" | "initiator"
        self.submodules = []
        self.extend = None    # optional: a legal further configuration call (returns a summary)
        self.port_params = None   # the constructor parameters the port must have, when given explicitly

    def add_component_signature(self):
        from amaranth.lib.wiring import In
        from amaranth import Value
        for path, member, value in self.dut.signature.flatten(self.dut):
            name = "__".join(str(p) for p in path)
            v = Value.cast(value)
            if len(v) == 0:
                continue
            (self.inputs if member.flow == In else self.outputs).append((name, v))

    def add_interface(self, iface, prefix, dut_is_target):
        """A free-standing interface wired to the DUT. If dut_is_target the harness plays the
        initiator on it (drives its Out members), else the harness plays the target."""
        from amaranth.lib.wiring import In, Out
        from amaranth import Value
        for path, member, value in iface.signature.flatten(iface):
            name = prefix + "__" + "__".join(str(p) for p in path)
            v = Value.cast(value)
            if len(v) == 0:
                continue
            harness_drives = (member.flow == Out) if dut_is_target else (member.flow == In)
            (self.inputs if harness_drives else self.outputs).append((name, v))


# ---------------------------------------------------------------------------------------------
def _field_tree(rng, depth, racc):
    ACT = {"r": ["R"], "w": ["W"], "rw": ["R", "W", "RW", "RW1C", "RW1S"]}
    k = rng.below(100)
    if depth >= 3 or k < (40 if depth == 0 else 55):
        act = rng.choice(ACT[racc] + ["ResRAW0", "ResR0W0"])
        kind = rng.below(12)
        if kind < 6:
            sh = ["u", rng.range(0, 9)]
        elif kind < 8:
            sh = ["s", rng.range(1, 9)]
        elif kind < 10:
            sh = ["e"]
        elif kind == 10:
            sh = ["arr", rng.range(1, 3), rng.range(1, 3)]
        else:
            sh = ["struct", [rng.range(1, 3) for _ in range(rng.range(1, 3))]]
        return {"t": "field", "act": act, "shape": sh}
    if k < 80:
        return {"t": "dict", "items": [[f"f{i}", _field_tree(rng, depth + 1, racc)]
                                       for i in range(rng.range(1, 3))]}
    return {"t": "list", "items": [_field_tree(rng, depth + 1, racc) for _ in range(rng.range(1, 3))]}


def _build_fields(node):
    from amaranth_soc import csr
    from amaranth_soc.csr import action
    from worlds.fields import make_shape
    if node["t"] == "field":
        kw = {}
        if node["shape"][0] in ("arr", "struct") and node["act"] in ("RW", "RW1C", "RW1S"):
            from worlds.fields import make_init
            sh = node["shape"]
            kw["init"] = make_init(sh, [0] * (sh[2] if sh[0] == "arr" else len(sh[1])))
        return csr.Field(getattr(action, node["act"]), make_shape(node["shape"]), **kw)
    if node["t"] == "dict":
        return {n: _build_fields(s) for n, s in node["items"]}
    return [_build_fields(s) for s in node["items"]]


def gen_register(rng):
    racc = rng.choice(["r", "w", "rw", "rw"])
    return {"access": racc, "coll": _field_tree(rng, 0, racc)}


def build_register(cfg):
    from amaranth_soc import csr
    reg = hw.construct(csr.Register, _build_fields(cfg["coll"]), access=cfg["access"])
    b = Built(reg, "csr.Register")
    # the element port is consumed directly by a multiplexer (never through connect()): the
    # register is the target on it, whatever the member's nominal flow says
    b.add_interface(reg.element, "element", dut_is_target=True)
    from amaranth import Value
    from amaranth.lib.wiring import In
    for path, act in reg:
        for mpath, member, value in act.signature.flatten(act):
            if mpath[0] == "port":
                continue
            v = Value.cast(value)
            if len(v) == 0:
                continue
            name = "f_" + "_".join(map(str, path)) + "__" + "_".join(map(str, mpath))
            (b.inputs if member.flow == In else b.outputs).append((name, v))
    return b


def gen_action(rng):
    from worlds.fields import ACTIONS
    kind = rng.below(10)
    sh = ["u", rng.range(0, 9)] if kind < 5 else (["s", rng.range(1, 9)] if kind < 8 else ["e"])
    if rng.chance(0.15):
        sh = rng.choice([["arr", rng.range(1, 3), rng.range(1, 3)],
                         ["struct", [rng.range(1, 3) for _ in range(rng.range(1, 3))]]])
    return {"act": rng.choice(ACTIONS), "shape": sh}


def build_action(cfg):
    from amaranth_soc.csr import action
    from worlds.fields import make_shape
    kw = {}
    sh = cfg["shape"]
    if sh[0] in ("arr", "struct") and cfg["act"] in ("RW", "RW1C", "RW1S"):
        from worlds.fields import make_init
        kw["init"] = make_init(sh, [0] * (sh[2] if sh[0] == "arr" else len(sh[1])))
    a = hw.construct(getattr(action, cfg["act"]), make_shape(sh), **kw)
    b = Built(a, "csr.action." + cfg["act"])
    b.add_component_signature()
    return b


def gen_mux(rng):
    from worlds.mux import WORLD
    cfg = WORLD.gen_config(rng, "C19")
    if rng.chance(0.15):
        # a register may be mapped with fewer addresses than its width needs (accepted by the
        # memory map and the multiplexer; only elaboration is C19's concern here)
        for r in cfg["regs"]:
            if r["size"] > 1 and rng.chance(0.5):
                r["size"] -= 1
    return cfg


def build_mux(cfg):
    from amaranth_soc import csr
    from worlds.mux import build_map
    made = []
    mm, placed, _ = build_map(cfg, lambda m_: made.append(
        hw.construct(csr.Multiplexer, m_, shadow_overlaps=cfg["ov"])))
    dut = made[0]
    b = Built(dut, "csr.Multiplexer")
    b.add_component_signature()
    for i, (reg, s, e, w, acc) in enumerate(placed):
        b.add_interface(reg.element, f"r{i}", dut_is_target=False)
    b.maps.append(mm)
    b.port = ("bus", "target")
    b.port_params = {"addr_width": cfg["aw"], "data_width": cfg["dw"]}
    return b


def gen_csrdec(rng):
    aw = rng.range(2, 8) if not rng.chance(0.15) else rng.range(1, 3)
    subs = []
    if rng.chance(0.1):
        return {"aw": aw, "dw": rng.choice([4, 8, 16, 32]), "al": 0,
                "subs": [{"aw": aw, "name": None if rng.chance(0.5) else "all", "addr": None}]}
    for i in range(rng.range(0, 4)):
        if aw < 2:
            break
        saw = rng.range(1, aw - 1)
        subs.append({"aw": saw, "name": None if rng.chance(0.4) else f"w{i}",
                     "addr": ((rng.below(1 << aw) >> saw) << saw) if rng.chance(0.3) else None})
    return {"aw": aw, "dw": rng.choice([4, 8, 16, 32]),
            "al": rng.choice([0, 0, 1, 2]) if not rng.chance(0.15) else rng.range(3, 6),
            "subs": subs}


def build_csrdec(cfg):
    from amaranth_soc import csr
    from amaranth_soc.memory import MemoryMap
    dut = hw.construct(csr.Decoder, addr_width=cfg["aw"], data_width=cfg["dw"],
                       alignment=cfg["al"])
    b = Built(dut, "csr.Decoder")
    b.add_component_signature()
    for i, sc in enumerate(cfg["subs"]):
        sb = csr.Interface(addr_width=sc["aw"], data_width=cfg["dw"], path=(f"s{i}",))
        sb.memory_map = MemoryMap(addr_width=sc["aw"], data_width=cfg["dw"])
        # distinct resource names so that anonymous windows do not collide
        sb.memory_map.add_resource(hw.MockReg(1, "r"), name=(f"res{i}",), size=1)
        try:
            dut.add(sb, name=sc["name"], addr=sc["addr"])
        except ValueError:
            continue
        b.add_interface(sb, f"s{i}", dut_is_target=False)
    b.maps.append(dut.bus.memory_map)
    b.port = ("bus", "target")
    b.port_params = {"addr_width": cfg["aw"], "data_width": cfg["dw"]}

    def extend():
        sb = csr.Interface(addr_width=1, data_width=cfg["dw"], path=("late",))
        sb.memory_map = MemoryMap(addr_width=1, data_width=cfg["dw"])
        sb.memory_map.add_resource(hw.MockReg(1, "r"), name=("late_res",), size=1)
        return dut.add(sb, name="late")
    b.extend = extend
    return b


def gen_bridge(rng):
    g = 8
    dw = g * rng.choice([1, 1, 2, 4])
    regs = []
    for i in range(rng.range(0, 5)):
        scopes = []
        for _ in range(rng.choice([0, 0, 1, 2])):
            scopes.append(rng.choice(["blk", "sub", 0, 1, 2, "0", "1"]))
        # register names are free-form: short common words, names that look like a path
        name = f"r{i}" if not rng.chance(0.25) else rng.choice(
            ["mux", "ctrl", "blk__ctrl", "0", "sub__r0", "bus"])
        regs.append({"name": name, "scopes": scopes, "reg": gen_register(rng),
                     "off": None})
    return {"aw": rng.range(3, 8), "dw": dw, "regs": regs}


def build_bridge(cfg):
    from contextlib import ExitStack
    from amaranth_soc import csr
    bld = hw.construct(csr.Builder, addr_width=cfg["aw"], data_width=cfg["dw"])
    for rc in cfg["regs"]:
        reg = build_register(rc["reg"]).dut
        with ExitStack() as st:
            for sc in rc["scopes"]:
                st.enter_context(bld.Index(sc) if isinstance(sc, int) else bld.Cluster(sc))
            hw.construct(bld.add, rc["name"], reg, offset=rc["off"])
    mm = hw.construct(bld.as_memory_map)
    dut = hw.construct(csr.Bridge, mm)
    b = Built(dut, "csr.Bridge")
    b.add_component_signature()
    b.maps.append(mm)
    b.port = ("bus", "target")
    return b


def gen_evmon(rng):
    from worlds.evmon import TRIGGERS
    return {"srcs": [rng.choice(TRIGGERS) for _ in range(rng.choice([0, 1, 2, 3, 5, 9]))],
            "trigger": rng.choice(TRIGGERS), "readd": rng.bits(9) if rng.chance(0.3) else 0}


def build_evmon(cfg):
    from amaranth_soc import event
    em = event.EventMap()
    srcs = [event.Source(trigger=t, path=(f"s{i}",)) for i, t in enumerate(cfg["srcs"])]
    for i, s in enumerate(srcs):
        em.add(s)
        if (cfg.get("readd", 0) >> i) & 1:
            em.add(srcs[(i * 7) % (i + 1)])      # a source that is already in the map, again
    dut = hw.construct(event.Monitor, em, trigger=cfg["trigger"])
    b = Built(dut, "event.Monitor")
    b.add_component_signature()
    for i, s in enumerate(srcs):
        b.add_interface(s, f"src{i}", dut_is_target=True)
    b.event_maps.append(em)
    return b


def gen_csrevmon(rng):
    c = gen_evmon(rng)
    c.update(dw=rng.choice([4, 8, 16, 32]), al=rng.choice([0, 0, 1, 2]))
    return c


def build_csrevmon(cfg):
    from amaranth_soc import csr, event
    em = event.EventMap()
    srcs = [event.Source(trigger=t, path=(f"s{i}",)) for i, t in enumerate(cfg["srcs"])]
    for i, s in enumerate(srcs):
        em.add(s)
        if (cfg.get("readd", 0) >> i) & 1:
            em.add(srcs[(i * 7) % (i + 1)])      # a source that is already in the map, again
    kw = {"name": "mon"} if cfg["al"] else {}
    dut = hw.construct(csr.EventMonitor, em, trigger=cfg["trigger"], data_width=cfg["dw"],
                       alignment=cfg["al"], **kw)
    b = Built(dut, "csr.EventMonitor")
    b.add_component_signature()
    # documented geometry: two mask registers of ceil(n / data_width) words each (at least one
    # address bit), each aligned to 2**alignment
    words = (len(cfg["srcs"]) + cfg["dw"] - 1) // cfg["dw"]
    b.port_params = {"addr_width": 1 + max((words - 1).bit_length() if words > 1 else 0, cfg["al"]),
                     "data_width": cfg["dw"]}
    for i, s in enumerate(srcs):
        b.add_interface(s, f"src{i}", dut_is_target=True)
    b.maps.append(dut.bus.memory_map)
    b.event_maps.append(em)
    b.port = ("bus", "target")
    return b


def gen_wb2csr(rng):
    from worlds.wb2csr import WORLD
    return WORLD.gen_config(rng, "C19")


def build_wb2csr(cfg):
    from amaranth_soc import csr
    from amaranth_soc.csr.wishbone import WishboneCSRBridge
    from amaranth_soc.memory import MemoryMap
    cbus = hw.construct(csr.Interface, addr_width=cfg["caw"], data_width=cfg["cw"], path=("csr",))
    cbus.memory_map = MemoryMap(addr_width=cfg["caw"], data_width=cfg["cw"])
    kw = {"name": "csr"} if cfg["caw"] % 2 else {}
    dut = hw.construct(WishboneCSRBridge, cbus, data_width=cfg["ww"], **kw)
    b = Built(dut, "csr.wishbone.WishboneCSRBridge")
    b.add_component_signature()
    b.add_interface(cbus, "csr", dut_is_target=False)
    b.maps.append(dut.wb_bus.memory_map)
    b.port = ("wb_bus", "target")
    return b


def gen_wbdec(rng):
    from worlds.wbdec import WORLD
    c = WORLD.gen_config(rng, "C19")
    if c["dw"] == c["g"] and rng.chance(0.15):
        c["aw"] = 0      # F6 geometry: memory map is forced to 1 address bit while adr has 0
        for s in c["subs"]:
            if not s["sparse"]:
                s["aw"] = 0
            s["addr"] = None
    return c


def build_wbdec(cfg):
    from amaranth_soc import wishbone
    from amaranth_soc.memory import MemoryMap
    from worlds.wbdec import log2
    spell = hw.feature_speller(cfg.get("feats_as"))
    kw = {"name": "dec"} if cfg.get("twin_decoder") else {}      # rarely used public parameter
    dut = hw.construct(wishbone.Decoder, addr_width=cfg["aw"], data_width=cfg["dw"],
                       granularity=cfg["g"], features=spell(cfg["feats"]), alignment=cfg["al"], **kw)
    b = Built(dut, "wishbone.Decoder")
    b.add_component_signature()
    for i, sc in enumerate(cfg["subs"]):
        if not sc["sparse"] and sc["g"] != cfg["g"]:
            continue
        try:
            sb = wishbone.Interface(addr_width=sc["aw"], data_width=sc["dw"], granularity=sc["g"],
                                    features=set(sc["feats"]), path=(f"s{i}",))
            smaw = max(1, sc["aw"] + log2(sc["dw"] // sc["g"]))
            sb.memory_map = MemoryMap(addr_width=smaw, data_width=sc["g"])
            dut.add(sb, name=sc.get("name"), sparse=sc["sparse"],
                    **({"addr": sc["addr"]} if sc.get("addr") is not None else {}))
        except (ValueError, TypeError):
            continue
        b.add_interface(sb, f"s{i}", dut_is_target=False)
    b.maps.append(dut.bus.memory_map)
    b.port = ("bus", "target")
    b.port_params = {"addr_width": cfg["aw"], "data_width": cfg["dw"], "granularity": cfg["g"],
                     "features": set(cfg["feats"])}

    def extend():
        sb = wishbone.Interface(addr_width=0, data_width=cfg["dw"], granularity=cfg["g"],
                                path=("late",))
        sb.memory_map = MemoryMap(addr_width=max(1, log2(cfg["dw"] // cfg["g"])),
                                  data_width=cfg["g"])
        return dut.add(sb, name="late")
    b.extend = extend
    return b


def gen_arbiter(rng):
    from worlds.arbiter import WORLD
    cfg = WORLD.gen_config(rng, "C19")
    # C19 watches elaboration with a 60 s alarm: keep the largest arbiters (258-260 initiators need
    # ~25 s to convert on an idle core) out of it; 101-104 (3 s) stay
    if len(cfg["intrs"]) > 110:
        cfg["intrs"] = cfg["intrs"][:rng.range(101, 104)]
    if rng.chance(0.12):
        # the simplest system: one initiator with the arbiter's own features, word-granular on a
        # finer-grained bus
        gs = [x for x in (8, 16, 32, 64) if cfg["g"] <= x <= cfg["dw"]]
        cfg["intrs"] = [{"g": rng.choice(gs), "feats": list(cfg["feats"])}]
        cfg["mid_elab"] = None
    return cfg


def build_arbiter(cfg):
    from amaranth_soc import wishbone
    spell = hw.feature_speller(cfg.get("feats_as"))
    dut = hw.construct(wishbone.Arbiter, addr_width=cfg["aw"], data_width=cfg["dw"],
                       granularity=cfg["g"], features=spell(cfg["feats"]))
    b = Built(dut, "wishbone.Arbiter")
    b.add_component_signature()
    for i, ic in enumerate(cfg["intrs"]):
        ib = hw.construct(wishbone.Interface, addr_width=cfg["aw"], data_width=cfg["dw"],
                          granularity=ic["g"], features=set(ic["feats"]), path=(f"i{i}",))
        try:
            dut.add(ib)
        except ValueError:
            continue        # refused initiator (lacks err/rty): the caller carries on
        b.add_interface(ib, f"i{i}", dut_is_target=True)
    b.port = ("bus", "initiator")
    b.port_params = {"addr_width": cfg["aw"], "data_width": cfg["dw"], "granularity": cfg["g"],
                     "features": set(cfg["feats"])}

    def extend():
        ib = wishbone.Interface(addr_width=cfg["aw"], data_width=cfg["dw"], granularity=cfg["dw"],
                                features={"err", "rty"}, path=("late",))
        dut.add(ib)
        return "added"
    b.extend = extend
    return b


def gen_sram(rng):
    from worlds.sram import WORLD
    c = WORLD.gen_config(rng, "C19")
    c["init"] = c["init"][:8]
    return c


def build_sram(cfg):
    from amaranth_soc.wishbone.sram import WishboneSRAM
    dut = hw.construct(WishboneSRAM, size=cfg["size"], data_width=cfg["dw"], granularity=cfg["g"],
                       writable=bool(cfg["writable"]), init=cfg["init"])
    b = Built(dut, "wishbone.sram.WishboneSRAM")
    b.add_component_signature()
    b.maps.append(dut.wb_bus.memory_map)
    b.port = ("wb_bus", "target")
    # the interface of an initiator that addresses exactly the rows this memory has
    rows = (cfg["size"] * cfg["g"]) // cfg["dw"]
    b.port_params = {"addr_width": rows.bit_length() - 1, "data_width": cfg["dw"],
                     "granularity": cfg["g"], "features": ()}
    return b


def gen_gpio(rng):
    from worlds.gpio import WORLD
    cfg = WORLD.gen_config(rng, "C19")
    if cfg["pc"] > 140:
        cfg["pc"] = 140          # (see gen_arbiter: stay far below C19's elaboration alarm)
    return cfg


def build_gpio(cfg):
    from amaranth_soc import gpio
    dut = hw.construct(gpio.Peripheral, pin_count=cfg["pc"], addr_width=cfg["aw"],
                       data_width=cfg["dw"], input_stages=cfg["st"])
    b = Built(dut, "gpio.Peripheral")
    b.add_component_signature()
    b.maps.append(dut.bus.memory_map)
    b.port = ("bus", "target")
    b.port_params = {"addr_width": cfg["aw"], "data_width": cfg["dw"]}
    return b


FACTORIES = {
    "csr.Multiplexer": (gen_mux, build_mux),
    "csr.Decoder": (gen_csrdec, build_csrdec),
    "csr.Bridge": (gen_bridge, build_bridge),
    "csr.Register": (gen_register, build_register),
    "csr.action": (gen_action, build_action),
    "event.Monitor": (gen_evmon, build_evmon),
    "csr.EventMonitor": (gen_csrevmon, build_csrevmon),
    "WishboneCSRBridge": (gen_wb2csr, build_wb2csr),
    "wishbone.Decoder": (gen_wbdec, build_wbdec),
    "wishbone.Arbiter": (gen_arbiter, build_arbiter),
    "WishboneSRAM": (gen_sram, build_sram),
    "gpio.Peripheral": (gen_gpio, build_gpio),
}
ORDER = sorted(FACTORIES)
