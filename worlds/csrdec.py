"""World `csrdec` — C06: csr.Decoder routes each access to exactly one subordinate, transparently.

Two kinds of run:
 * stub: a tree of real csr.Decoders (1-3 levels) whose leaves are stub CSR buses returning a
   unique word the cycle after a read strobe and zero otherwise; arbitrary (addr, r_stb, w_stb,
   w_data) every cycle; routing oracle computed from root.memory_map by plain arithmetic.
 * flat: the same registers once behind a tree of real decoders over real multiplexers and once
   on one flat real multiplexer at the addresses root.memory_map.all_resources() reports; the two
   are driven identically and compared on every observable the CSR protocol defines."""
from simkit.core import World, Violation, Refused
from simkit.rng import cval
from simkit import hw
from models.regfile import RegFile, RegSpec, expand_csr_ops


def align_up(v, a):
    m = 1 << a
    return (v + m - 1) // m * m


class CsrDecWorld(World):
    name = "csrdec"
    properties = ("C06",)
    real_components = ("csr.Decoder (trees)", "memory.MemoryMap", "csr.Multiplexer (flat-"
                       "equivalence runs, both sides)")
    stub_components = ("leaf CSR buses (stub runs)", "mock registers (flat runs)",
                       "CSR initiator (seeded agent)")
    fault_kinds = ("byzantine_cycle", "both_strobes", "unassigned_address", "window_edge_address",
                   "abort", "gap", "rejected_re_add", "rejected_invalid_add", "queried_or_elaborated_while_being_populated",
                   "memory_map_assigned_through_setter")
    assumptions = (
        "Amaranth's Python RTL simulator executes the elaborated netlist faithfully",
        "idle subordinates drive zero read data (as the property assumes of well-behaved buses)",
        "selection uses a window's own 2^addr_width span; alignment padding is don't-care",
        "flat equivalence compares data only where the CSR protocol defines it (tracker-accepted "
        "transactions); strobes are compared on every cycle",
    )

    def runs(self, prop, tier):
        return {"quick": 5000, "thorough": 60000}[tier]

    # ------------------------------------------------------------------------------------------
    def _gen_tree(self, rng, aw, depth, kind):
        node = {"t": "dec", "aw": aw, "al": rng.choice([0, 0, 1, 2]), "omit": int(rng.chance(0.3)),
                "bad_add": rng.choice(["dw", "not_interface"]) if rng.chance(0.12) else None,
                "subs": [],
                "mid": rng.choice(["elab", "patterns", "resources"]) if rng.chance(0.12) else None,
                "mid_at": rng.below(3), "own_map": int(rng.chance(0.06))}
        if rng.chance(0.08) and aw >= 2:
            # a decoder wrapped around a single subordinate of its own address width
            sub = {"t": "leaf", "aw": aw} if kind == "stub" else \
                {"t": "mux", "aw": aw, "regs": [{"w": rng.choice([1, 8, 11]), "acc": "rw", "extra": 0}
                                                for _ in range(rng.range(1, 3))]}
            node["subs"].append({"node": sub, "name": None if rng.chance(0.4) else f"w{depth}_all",
                                 "addr": None, "align_to": None, "readd": 0})
            return node
        many = depth == 0 and rng.chance(0.25)
        for i in range(rng.range(0, 3) if depth else (rng.range(5, 14) if many else rng.range(1, 4))):
            if aw < 2:
                break
            saw = rng.range(1, aw - 1) if not many else rng.range(1, max(1, aw - 4))
            if depth < 2 and rng.chance(0.3) and saw >= 2:
                sub = self._gen_tree(rng, saw, depth + 1, kind)
            elif kind == "stub":
                sub = {"t": "leaf", "aw": saw}
            else:
                regs = []
                for j in range(rng.range(0, 3)):
                    w = rng.choice([1, 7, 8, 11, 16, 24])
                    regs.append({"w": w, "acc": rng.choice(["r", "w", "rw"]),
                                 "extra": rng.choice([0, 0, 1])})
                sub = {"t": "mux", "aw": saw, "regs": regs}
            nm_ = None if rng.chance(0.4) else f"w{depth}_{i}"
            if rng.chance(0.1):
                # structured names: an index next to a digit string, a name that contains "__"
                nm_ = [["u", 0], ["u", "0"], "u__0", ["u__0"], ["u", 1]][i % 5]
            node["subs"].append({"node": sub,
                                 "name": nm_,
                                 "addr": ((rng.below(1 << aw) >> saw) << saw) if rng.chance(0.3)
                                 else None,
                                 "align_to": rng.range(0, 3) if rng.chance(0.1) else None,
                                 "readd": int(rng.chance(0.1))})
        return node

    def gen_config(self, rng, prop):
        kind = rng.wchoice([("stub", 6), ("flat", 4)])
        dw = rng.choice([4, 8, 16]) if kind == "stub" else 8
        aw = rng.range(2, 7) if not rng.chance(0.3) else rng.range(6, 9)
        if kind == "stub" and rng.chance(0.02):
            # far ends of the legal range: very many windows, or a very wide address with small
            # windows at high explicit addresses
            if rng.chance(0.5):
                n = rng.range(65, 140)
                tree = {"t": "dec", "aw": 9, "al": 0, "omit": 0, "bad_add": None, "mid": None,
                        "mid_at": 0, "own_map": 0,
                        "subs": [{"node": {"t": "leaf", "aw": 1}, "name": f"w{i}", "addr": None,
                                  "align_to": None, "readd": 0} for i in range(n)]}
            else:
                aw = rng.range(55, 64)
                subs = []
                for i in range(rng.range(2, 4)):
                    saw = rng.range(1, 4)
                    a = ((1 << (aw - 1)) | (rng.bits(aw - 1) & ~((1 << 12) - 1)) | (i << 6)) >> saw << saw
                    subs.append({"node": {"t": "leaf", "aw": saw}, "name": f"w{i}", "addr": a,
                                 "align_to": None, "readd": 0})
                tree = {"t": "dec", "aw": aw, "al": 0, "omit": 0, "bad_add": None, "mid": None,
                        "mid_at": 0, "own_map": 0, "subs": subs}
            return {"kind": kind, "dw": dw, "tree": tree, "hwseed": rng.bits(32)}
        return {"kind": kind, "dw": dw, "tree": self._gen_tree(rng, aw, 0, kind),
                "hwseed": rng.bits(32)}

    def gen_ops(self, rng, config, prop):
        aw = config["tree"]["aw"]
        dw = config["dw"]
        ops = []
        if config["kind"] == "stub":
            for t in range(rng.range(40, 110)):
                ops.append({"addr": rng.bits(aw), "near": rng.below(64) if rng.chance(0.4) else None,
                            "r": rng.below(2), "w": rng.below(2), "wd": rng.bits(dw)})
        else:
            for _ in range(rng.range(15, 40)):
                k = rng.below(100)
                if k < 12:
                    ops.append({"k": "idle", "n": rng.range(1, 2)})
                elif k < 30:
                    ops.append({"k": "raw", "addr": rng.bits(aw), "r": rng.below(2),
                                "w": rng.below(2), "data": rng.bits(dw)})
                elif k < 38:
                    ops.append({"k": "weave", "reg": rng.below(16), "rn": rng.below(8),
                                "wn": rng.below(8), "ord": [rng.below(3) for _ in range(6)],
                                "gaps": [], "data": [rng.bits(dw) for _ in range(6)]})
                else:
                    ops.append({"k": "txn", "reg": rng.below(16), "mode": rng.choice(["r", "w", "rw"]),
                                "n": None if rng.chance(0.75) else rng.below(8),
                                "gaps": [rng.range(1, 2) if rng.chance(0.15) else 0 for _ in range(6)],
                                "data": [rng.bits(dw) for _ in range(6)]})
        return ops

    # ------------------------------------------------------------------------------------------
    def _build(self, node, dw, mods, leaves, counter):
        """Returns the bus of the sub-tree. leaves: list of dicts per leaf."""
        from amaranth_soc import csr
        from amaranth_soc.memory import MemoryMap
        if node["t"] == "leaf":
            i = len(leaves)
            bus = csr.Interface(addr_width=node["aw"], data_width=dw, path=(f"l{i}",))
            bus.memory_map = MemoryMap(addr_width=node["aw"], data_width=dw)
            bus.memory_map.add_resource(hw.MockReg(1, "r"), name=(f"leafres{i}",), size=1)
            leaves.append({"bus": bus, "map": bus.memory_map})
            return bus
        if node["t"] == "mux":
            mm = MemoryMap(addr_width=node["aw"], data_width=dw)
            regs = []
            for rc in node["regs"]:
                counter[0] += 1
                reg = hw.MockReg(rc["w"], rc["acc"])
                try:
                    mm.add_resource(reg, name=(f"reg{counter[0]}",),
                                    size=(rc["w"] + dw - 1) // dw + rc["extra"])
                except ValueError:
                    continue
                regs.append((reg, rc))
            mux = csr.Multiplexer(mm)
            mods.append(mux)
            leaves.append({"bus": mux.bus, "map": mm, "regs": regs})
            return mux.bus
        dec = hw.construct(csr.Decoder, **hw.spelled(node.get("omit"), {"alignment": 0},
                                                     addr_width=node["aw"], data_width=dw,
                                                     alignment=node["al"]))
        if node.get("own_map"):
            dec.bus.memory_map = MemoryMap(addr_width=node["aw"], data_width=dw,
                                           alignment=node["al"])
            counter.append("own_map")
        mods.append(dec)
        for k_, sc in enumerate(node["subs"]):
            if node.get("mid") and k_ == node.get("mid_at", 0) + 1:
                # API-order fault: the decoder is elaborated / queried while it is still being
                # populated; more subordinates are added afterwards
                if node["mid"] == "elab":
                    hw.elaborate_once(dec)
                elif node["mid"] == "patterns":
                    list(dec.bus.memory_map.window_patterns())
                else:
                    list(dec.bus.memory_map.all_resources())
                counter.append("mid")
            # build the subtree first; skip it entirely if the window is refused
            sub_mods, sub_leaves = [], []
            bus = self._build(sc["node"], dw, sub_mods, sub_leaves, counter)
            try:
                if sc.get("align_to") is not None:
                    dec.align_to(sc["align_to"])
                dec.add(bus, name=tuple(sc["name"]) if isinstance(sc["name"], list) else sc["name"],
                        **({"addr": sc["addr"]} if sc.get("addr") is not None else {}))
            except ValueError:
                continue
            mods.extend(sub_mods)
            leaves.extend(sub_leaves)
            if sc.get("readd"):
                # fault: the caller adds the same bus again; the call is refused and the caller
                # carries on (nothing may change)
                try:
                    dec.add(bus, name=f"again{len(mods)}")
                    raise Violation("C06", "duplicate-subordinate-accepted", 0, "")
                except ValueError:
                    counter.append("readd")
        if node.get("bad_add"):
            # fault: an add() the decoder has to refuse (and survive unchanged)
            if node["bad_add"] == "dw":
                bad = csr.Interface(addr_width=1, data_width=dw * 2, path=("bad",))
                bad.memory_map = MemoryMap(addr_width=1, data_width=dw * 2)
            else:
                bad = object()
            try:
                dec.add(bad, name="bad")
                raise Violation("C06", "invalid-subordinate-accepted", 0,
                                f"add() accepted a subordinate it must refuse ({node['bad_add']})")
            except (ValueError, TypeError):
                counter.append("bad_add")
        return dec.bus

    @staticmethod
    def _leaf_windows(mm, base, leaf_maps):
        """Plain arithmetic over windows(): yields (leaf index, own start, own span, reported end)."""
        for w, n, (s, e, r) in mm.windows():
            idx = [i for i, lm in enumerate(leaf_maps) if lm is w]
            if idx:
                yield idx[0], base + s, 1 << w.addr_width, base + e
            else:
                yield from CsrDecWorld._leaf_windows(w, base + s, leaf_maps)

    def run(self, config, ops, props, stats, hist):
        if config["kind"] == "stub":
            return self.run_stub(config, ops, stats, hist)
        return self.run_flat(config, ops, stats, hist)

    def run_stub(self, config, ops, stats, hist):
        dw = config["dw"]
        mods, leaves = [], []
        counter = [0]
        root = self._build(config["tree"], dw, mods, leaves, counter)
        stats.fault("rejected_re_add", counter.count("readd"))
        stats.fault("rejected_invalid_add", counter.count("bad_add"))
        stats.fault("queried_or_elaborated_while_being_populated", counter.count("mid"))
        stats.fault("memory_map_assigned_through_setter", counter.count("own_map"))
        aw = config["tree"]["aw"]
        sim = hw.build_sim(hw.make_top(*mods))
        lw = list(self._leaf_windows(root.memory_map, 0, [l["map"] for l in leaves]))
        # nested decoders: a leaf is reachable only through every enclosing window's own span;
        # compute that by walking down with decode of the window chain
        spans = self._effective_spans(root.memory_map, [l["map"] for l in leaves])
        hwseed = config["hwseed"]
        M = (1 << dw) - 1

        async def tb(ctx):
            p = hw.Pins(ctx)
            pend = {}
            exp_r = 0
            for t, op in enumerate(ops):
                a = int(op.get("addr", 0)) & ((1 << aw) - 1)
                near = op.get("near")
                if near is not None and spans:
                    li, s, span, padded = spans[(near // 4) % len(spans)]
                    a = [s, s + span - 1, s - 1, s + span][near % 4] & ((1 << aw) - 1)
                    stats.fault("window_edge_address")
                rs, ws = int(op.get("r", 0)) & 1, int(op.get("w", 0)) & 1
                wd = int(op.get("wd", 0)) & M
                p.set(root.addr, a)
                p.set(root.r_stb, rs)
                p.set(root.w_stb, ws)
                p.set(root.w_data, wd)
                for i, l in enumerate(leaves):
                    p.set(l["bus"].r_data, pend.get(i, 0))
                got = p.get(root.r_data)
                stats.checks += 1
                if exp_r is not None and got != exp_r:
                    raise Violation("C06", "read-data-not-from-addressed-subordinate", t,
                                    f"bus.r_data={got:#x} expected {exp_r:#x}")
                pend = {}
                exp_r = 0
                nsel = 0
                in_pad = any(s <= a < pe and not (s <= a < s + span) for (_, s, span, pe) in spans)
                stats.fault("byzantine_cycle")
                if rs and ws:
                    stats.fault("both_strobes")
                obs = [got]
                seen = set()
                for (li, s, span, pe) in spans:
                    l = leaves[li]["bus"]
                    sel = s <= a < s + span
                    seen.add(li)
                    g_r, g_w = p.get(l.r_stb), p.get(l.w_stb)
                    obs += [g_r, g_w]
                    if g_r or g_w:
                        nsel += 1
                    if in_pad:
                        sel = bool(g_r or g_w) and sel
                        continue
                    stats.checks += 2
                    if g_r != int(rs and sel) or g_w != int(ws and sel):
                        cls = "strobe-forwarded-to-wrong-subordinate" if not sel else \
                            "strobe-not-forwarded"
                        raise Violation("C06", cls, t,
                                        f"leaf {li} window [{s},{s + span}): r_stb={g_r} w_stb={g_w} "
                                        f"for addr={a} r={rs} w={ws}")
                    if sel and (rs or ws):
                        stats.work += 1
                        ga = p.get(l.addr)
                        stats.checks += 1
                        if ga != (a - s) & ((1 << len(l.addr)) - 1):
                            raise Violation("C06", "low-address-bits-changed", t,
                                            f"leaf {li}: addr={ga} expected {a - s}")
                        if ws and p.get(l.w_data) != wd:
                            raise Violation("C06", "write-data-changed", t, f"leaf {li}")
                    if sel and rs:
                        pend[li] = cval(hwseed, li, t, dw) | 1
                        exp_r = pend[li]
                for li in range(len(leaves)):
                    if li not in seen:
                        l = leaves[li]["bus"]
                        if p.get(l.r_stb) or p.get(l.w_stb):
                            raise Violation("C06", "strobe-forwarded-to-wrong-subordinate", t,
                                            f"unreachable leaf {li} strobed")
                if in_pad:
                    stats.probe("address_in_alignment_padding")
                    exp_r = None
                    for (li, s, span, pe) in spans:
                        l = leaves[li]["bus"]
                        if p.get(l.r_stb):
                            pend[li] = cval(hwseed, li, t, dw) | 1
                stats.checks += 1
                if nsel > 1:
                    raise Violation("C06", "more-than-one-subordinate-strobed", t, f"addr={a}")
                if (rs or ws) and nsel == 0:
                    stats.fault("unassigned_address")
                hist.rec(t, obs)
                await ctx.tick()
            stats.cycles += len(ops)

        if len(spans) >= 2:
            stats.probe("two_or_more_leaves")
        hw.run_tb(sim, tb)

    def _effective_spans(self, mm, leaf_maps, base=0, lo=0, hi=None):
        """Leaf reachability by plain arithmetic: a leaf is addressed by exactly the addresses of
        its own span, clipped to every enclosing window's own span."""
        if hi is None:
            hi = 1 << mm.addr_width
        out = []
        for w, n, (s, e, r) in mm.windows():
            own_lo, own_hi = base + s, base + s + (1 << w.addr_width)
            c_lo, c_hi = max(lo, own_lo), min(hi, own_hi)
            idx = [i for i, lm in enumerate(leaf_maps) if lm is w]
            if idx:
                if c_lo < c_hi:
                    out.append((idx[0], c_lo, c_hi - c_lo, max(c_hi, min(hi, base + e))))
            else:
                out.extend(self._effective_spans(w, leaf_maps, base + s, c_lo, c_hi))
        return out

    def run_flat(self, config, ops, stats, hist):
        from amaranth_soc import csr
        from amaranth_soc.memory import MemoryMap
        dw = config["dw"]
        mods, leaves = [], []
        counter = [0]
        root = self._build(config["tree"], dw, mods, leaves, counter)
        stats.fault("rejected_re_add", counter.count("readd"))
        stats.fault("rejected_invalid_add", counter.count("bad_add"))
        stats.fault("queried_or_elaborated_while_being_populated", counter.count("mid"))
        stats.fault("memory_map_assigned_through_setter", counter.count("own_map"))
        aw = config["tree"]["aw"]
        infos = list(root.memory_map.all_resources())
        tree_regs = {}
        for l in leaves:
            for reg, rc in l.get("regs", []):
                tree_regs[id(reg)] = (reg, rc)
        flat_map = MemoryMap(addr_width=aw, data_width=dw)
        pairs = []
        for info in infos:
            if id(info.resource) not in tree_regs:
                continue
            reg, rc = tree_regs[id(info.resource)]
            freg = hw.MockReg(rc["w"], rc["acc"])
            try:
                flat_map.add_resource(freg, name=info.path[-1], addr=info.start,
                                      size=info.end - info.start)
            except ValueError as e:
                raise Violation("C06", "reported-addresses-cannot-hold-the-registers", 0,
                                f"{tuple(info.path[-1])} at [{info.start},{info.end}): {e}")
            pairs.append((reg, freg, rc, info.start, info.end))
        flat = csr.Multiplexer(flat_map)
        sim = hw.build_sim(hw.make_top(*(mods + [flat])))
        specs = [RegSpec(i, s, e, rc["w"], "r" in rc["acc"], "w" in rc["acc"])
                 for i, (reg, freg, rc, s, e) in enumerate(pairs)]
        rf = RegFile(dw, specs)
        cycles = expand_csr_ops(ops, [(s.start, s.end) for s in specs], aw, dw,
                                lambda t, b: cval(config["hwseed"], 777, t, b))
        hwseed = config["hwseed"]

        async def tb(ctx):
            p = hw.Pins(ctx)
            prev = None
            for t, (addr, rs, ws, wd, tag) in enumerate(cycles):
                for bus in (root, flat.bus):
                    p.set(bus.addr, addr)
                    p.set(bus.r_stb, rs)
                    p.set(bus.w_stb, ws)
                    p.set(bus.w_data, wd)
                vals = {}
                for i, (reg, freg, rc, s, e) in enumerate(pairs):
                    if "r" in rc["acc"]:
                        v = cval(hwseed, i, t, rc["w"])
                        vals[i] = v
                        p.set(reg.element.r_data, v)
                        p.set(freg.element.r_data, v)
                e_ = rf.step(addr, rs, ws, wd, vals)
                g1, g2 = p.get(root.r_data), p.get(flat.bus.r_data)
                if prev is not None and prev.next_r[0] == "exact":
                    stats.checks += 1
                    if g1 != g2:
                        raise Violation("C06", "tree-differs-from-flat-multiplexer", t,
                                        f"r_data tree={g1:#x} flat={g2:#x}")
                    if g1 or g2:
                        stats.work += 1
                for i, (reg, freg, rc, s, e) in enumerate(pairs):
                    if "r" in rc["acc"]:
                        stats.checks += 1
                        if p.get(reg.element.r_stb) != p.get(freg.element.r_stb):
                            raise Violation("C06", "tree-differs-from-flat-multiplexer", t,
                                            f"register at [{s},{e}) r_stb tree="
                                            f"{p.get(reg.element.r_stb)} flat="
                                            f"{p.get(freg.element.r_stb)}")
                    if "w" in rc["acc"]:
                        w1, w2 = p.get(reg.element.w_stb), p.get(freg.element.w_stb)
                        stats.checks += 1
                        if w1 != w2:
                            raise Violation("C06", "tree-differs-from-flat-multiplexer", t,
                                            f"register at [{s},{e}) w_stb tree={w1} flat={w2}")
                        if w1 and prev is not None and prev.next_w.get(i) is not None:
                            d1, d2 = p.get(reg.element.w_data), p.get(freg.element.w_data)
                            for k in sorted(prev.next_w[i]):
                                lim = max(0, min(dw, rc["w"] - k * dw))
                                m_ = ((1 << lim) - 1) << (k * dw)
                                if (d1 & m_) != (d2 & m_):
                                    raise Violation("C06", "tree-differs-from-flat-multiplexer", t,
                                                    f"register at [{s},{e}) w_data chunk {k}")
                            stats.work += 1
                if tag == "gap":
                    stats.fault("gap")
                if tag == "raw":
                    stats.fault("byzantine_cycle")
                if rs and ws:
                    stats.fault("both_strobes")
                if (rs or ws) and e_.hit is None:
                    stats.fault("unassigned_address")
                if tag == "txn-abort" and (t + 1 == len(cycles) or cycles[t + 1][4] != "txn-abort"):
                    stats.fault("abort")
                hist.rec(t, g1, g2)
                prev = e_
                await ctx.tick()
            stats.cycles += len(cycles)

        if pairs:
            stats.probe("flat_equivalence_with_registers")
        hw.run_tb(sim, tb)

    def simplify_op(self, op):
        if op.get("near") is not None:
            return
        if op.get("r") and op.get("w"):
            yield dict(op, r=0)
            yield dict(op, w=0)

    def shrink_config(self, config, ops):
        tree = config["tree"]
        for j in range(len(tree["subs"])):
            t2 = dict(tree, subs=tree["subs"][:j] + tree["subs"][j + 1:])
            yield dict(config, tree=t2), ops
        if tree["al"]:
            yield dict(config, tree=dict(tree, al=0)), ops
        for j, sc in enumerate(tree["subs"]):
            if sc["node"]["t"] == "dec" and sc["node"]["subs"]:
                n2 = dict(sc["node"], subs=sc["node"]["subs"][:-1])
                yield dict(config, tree=dict(tree, subs=tree["subs"][:j] + [dict(sc, node=n2)] +
                                             tree["subs"][j + 1:])), ops

    def sample(self, config, ops):
        return {"config": config, "first_ops": ops[:5], "n_ops": len(ops)}


WORLD = CsrDecWorld()
