"""World `csrevmon` — C14: csr.EventMonitor through its CSR bus.

System: the real csr.EventMonitor (real Multiplexer + real event.Monitor inside) driven by an
open-loop CSR initiator agent while every event line changes every cycle. Attachment variants:
direct port, behind a real csr.Decoder, and via wiring.connect() from an initiator interface.
Model = ideal register file (conformance tracker) composed with the monitor model."""
from simkit.core import World, Violation
from simkit.rng import cval
from simkit import hw
from models.regfile import RegFile, RegSpec, expand_csr_ops
from models.evmon import MonitorModel

TRIGGERS = ["level", "rise", "fall"]


class CsrEvMonWorld(World):
    name = "csrevmon"
    properties = ("C14",)
    real_components = ("csr.EventMonitor", "csr.Multiplexer", "event.Monitor", "csr.Decoder "
                       "(attachment variant)", "wiring.connect (attachment variant)")
    stub_components = ("CSR initiator (seeded open-loop agent)", "event source lines (seeded)")
    fault_kinds = ("abort", "gap", "event_in_clearing_cycle", "events_between_chunks",
                   "write_zero_mask", "read_while_events_arrive", "event_map_queried_before_complete",
                   "second_instance_in_process",
                   "decoder_windows_at_explicit_addresses_in_any_order", "domain_reset",
                   "repeated_add", "sole_subordinate_padded_to_the_whole_space", "stray_unassigned_access")
    assumptions = (
        "Amaranth's Python RTL simulator executes the elaborated netlist faithfully",
        "a reset of the clock domain returns the component to its initial state (the state the "
        "property calls initial is the state after reset, as for every Amaranth register)",
        "only transaction-shaped CSR accesses are generated (complete or aborted, with gaps), "
        "because the data a register receives from a non-conforming write is unspecified",
        "the register file half of the model relies on C04/C05 (multiplexer) semantics",
    )

    def runs(self, prop, tier):
        return {"quick": 3000, "thorough": 40000}[tier]

    def gen_config(self, rng, prop):
        dw = rng.choice([4, 8, 16, 32]) if not rng.chance(0.06) else rng.choice([1, 2, 3])
        n = rng.range(0, 3 * dw if (dw <= 8 or rng.chance(0.15)) else 20)
        if rng.chance(0.15):
            n = rng.range(4 * dw + 1, 7 * dw)        # five to seven mask words
        return {"dw": dw, "al": rng.choice([0, 0, 1, 2]),
                "srcs": [rng.choice(TRIGGERS) for _ in range(n)],
                "trigger": rng.choice(TRIGGERS),
                "attach": rng.wchoice([("direct", 5), ("decoder", 3), ("connect", 2)]),
                "p_lv": rng.choice([5, 30, 60]), "hwseed": rng.bits(32),
                "peek_sources": int(rng.chance(0.15)), "decoy": int(rng.chance(0.1)),
                # decoder attachment: which quarter of the decoder the monitor and its neighbour
                # occupy (None: implicit placement) and which of the two is added first
                "dec_slots": rng.choice([None, None] + [[a, b] for a in range(4) for b in range(4)
                                                        if a != b]),
                "dec_mon_first": int(rng.chance(0.5)), "omit": int(rng.chance(0.3)),
                "dec_al": rng.choice([0, 0, 1, 2, 3]),
                "readd": rng.bits(16) if rng.chance(0.25) else 0,
                "solo": int(rng.chance(0.12))}

    def gen_ops(self, rng, config, prop):
        dw = config["dw"]
        ops = []
        p_rst = rng.choice([0, 0, 0.2])
        for _ in range(rng.range(15, 50)):
            k = rng.below(100)
            if k < 15:
                ops.append({"k": "idle", "n": rng.range(1, 3)} if not rng.chance(p_rst)
                           else {"k": "reset"})
            elif k < 19:
                # a stray access outside the registers (kept only if the address is unassigned)
                ops.append({"k": "raw", "addr": rng.bits(16), "r": rng.below(2), "w": rng.below(2),
                            "data": rng.bits(dw)})
            elif k < 23:
                ops.append({"k": "weave", "reg": rng.below(2), "rn": rng.below(12),
                            "wn": rng.below(12), "ord": [rng.below(3) for _ in range(8)],
                            "gaps": [], "data": [rng.bits(dw) for _ in range(8)]})
            else:
                sparse = rng.chance(0.5)
                size = 8
                ops.append({"k": "txn", "reg": rng.below(2), "mode": rng.choice(["r", "w", "w", "rw"]),
                            "n": None if rng.chance(0.8) else rng.below(12),
                            "gaps": [rng.range(1, 2) if rng.chance(0.2) else 0 for _ in range(size)],
                            "data": [(rng.bits(dw) & (rng.bits(dw) if sparse else (1 << dw) - 1))
                                     if not rng.chance(0.1) else 0 for _ in range(size)]})
        return ops

    def run(self, config, ops, props, stats, hist):
        from amaranth import Module
        from amaranth.lib import wiring
        from amaranth_soc import csr, event
        dw = config["dw"]
        n = len(config["srcs"])
        em = event.EventMap()
        omit = config.get("omit")
        srcs = [event.Source(path=(f"s{i}",), **hw.spelled(omit, {"trigger": "level"}, trigger=tr))
                for i, tr in enumerate(config["srcs"])]
        for i_, s in enumerate(srcs):
            em.add(s)
            if (int(config.get("readd") or 0) >> (i_ % 16)) & 1:
                em.add(srcs[(i_ * 5) % (i_ + 1)])       # a source that is already in the map
                stats.fault("repeated_add")
            if config.get("peek_sources") and i_ == len(srcs) // 2:
                list(em.sources())      # API order: the map is queried before it is complete
                em.size
                stats.fault("event_map_queried_before_complete")
        dut = hw.must_accept("C14", f"csr.EventMonitor({n} events, data_width={dw}, alignment="
                             f"{config['al']})", csr.EventMonitor, em,
                             **hw.spelled(omit, {"trigger": "level", "alignment": 0},
                                          trigger=config["trigger"], data_width=dw,
                                          alignment=config["al"]))
        if config.get("decoy"):
            em2 = event.EventMap()
            for i_ in range((n % 3) + 1):
                em2.add(event.Source(trigger=TRIGGERS[i_ % 3], path=(f"d{i_}",)))
            csr.EventMonitor(em2, trigger=config["trigger"], data_width=dw, alignment=config["al"])
            stats.fault("second_instance_in_process")
        top, rst = hw.make_top_with_reset(dut)
        attach = config["attach"]
        base = 0
        if attach == "direct":
            bus = dut.bus
            mmap = dut.bus.memory_map
        elif attach == "decoder":
            # the decoder may have a (small) alignment of its own
            unit = max(dut.bus.addr_width, int(config.get("dec_al") or 0))
            dec = csr.Decoder(addr_width=unit + 2, data_width=dw,
                              **hw.spelled(True, {"alignment": 0},
                                           alignment=int(config.get("dec_al") or 0)))
            slots = config.get("dec_slots")
            if config.get("solo"):
                # the monitor is the decoder's only subordinate and the decoder's alignment equals
                # its own address width: the window is padded to the whole space, the addresses
                # beyond the monitor stay unassigned
                dec = csr.Decoder(addr_width=unit + 2, data_width=dw, alignment=unit + 2)
                dec.add(dut.bus, name="mon")
                stats.fault("sole_subordinate_padded_to_the_whole_space")
            elif not slots:
                dec.align_to(unit)
                dec.add(_pad_bus(csr, dw), name="pad")
                dec.add(dut.bus, name="mon")
            else:
                # explicit addresses in either order of addition (ascending or descending)
                adds = [(dut.bus, "mon", int(slots[0]) % 4), (_pad_bus(csr, dw), "pad", int(slots[1]) % 4)]
                if adds[0][2] == adds[1][2]:
                    adds[1] = (adds[1][0], "pad", (adds[0][2] + 1) % 4)
                if not config.get("dec_mon_first"):
                    adds.reverse()
                for b_, nm_, slot_ in adds:
                    dec.add(b_, name=nm_, addr=slot_ << unit)
                stats.fault("decoder_windows_at_explicit_addresses_in_any_order")
            top.submodules.dec = dec
            bus = dec.bus
            mmap = dec.bus.memory_map
        else:
            ini = csr.Interface(addr_width=dut.bus.addr_width, data_width=dw, path=("ini",))
            try:
                wiring.connect(top, ini, dut.bus)
            except Exception as e:
                raise Violation("C14", "cannot-attach-by-connecting-an-initiator", 0,
                                f"wiring.connect(m, csr.Interface(...), monitor.bus) raised "
                                f"{type(e).__name__}: {str(e)[:160]}",
                                key="csr.EventMonitor.bus:connect:" + type(e).__name__)
            bus = ini
            mmap = dut.bus.memory_map
        regs = {}
        for info in mmap.all_resources():
            regs[str(info.path[-1][-1])] = (info.start, info.end)
        if set(regs) != {"enable", "pending"}:
            raise Violation("C14", "memory-map-lacks-enable-or-pending", 0, f"{sorted(regs)}")
        names = ["enable", "pending"]
        specs = [RegSpec(i, regs[nm][0], regs[nm][1], n, True, True) for i, nm in enumerate(names)]
        for sp, nm in zip(specs, names):
            if (sp.end - sp.start) * dw < n:
                raise Violation("C14", "register-range-cannot-hold-the-mask", 0,
                                f"{nm} is reported at [{sp.start},{sp.end}) = "
                                f"{(sp.end - sp.start) * dw} bits for {n} events")
        rf = RegFile(dw, specs)
        aw = len(bus.addr)
        hwseed = config["hwseed"]
        mapped_ = set()
        for sp in specs:
            mapped_.update(range(sp.start, sp.end))
        ops = [op if op.get("k") != "raw" or (int(op.get("addr", 0)) & ((1 << aw) - 1)) not in mapped_
               else {"k": "idle", "n": 1} for op in ops]
        cycles = expand_csr_ops(ops, [(s.start, s.end) for s in specs], aw, dw,
                                lambda t, bits: 0)
        sim = hw.build_sim(top)
        mon = MonitorModel([s.trigger.value for s in srcs])
        p_lv = config["p_lv"]

        async def tb(ctx):
            p = hw.Pins(ctx)
            enable = 0
            prev = None
            tainted = False
            open_txn_reg = None
            for t, (addr, rs, ws, wd, tag) in enumerate(cycles):
                p.set(bus.addr, addr)
                p.set(bus.r_stb, rs)
                p.set(bus.w_stb, ws)
                p.set(bus.w_data, wd)
                p.set(rst, int(tag == "reset"))
                lv = 0
                for i in range(n):
                    bit = int(cval(hwseed, i, t, 7) % 100 < p_lv)
                    lv |= bit << i
                    p.set(srcs[i].i, bit)
                e = rf.step(addr, rs, ws, wd, {0: enable, 1: mon.pending})
                # ---- deliveries from the previous cycle's bus write --------------------------
                clear = 0
                new_enable = None
                if prev is not None:
                    for i, chunks in prev.next_w.items():
                        v = None if chunks is None else rf.complete_value(specs[i], chunks)
                        if v is None:
                            tainted = True
                            stats.probe("model_tainted_by_nonconforming_write")
                        elif i == 0:
                            new_enable = v
                        else:
                            clear = v
                            if v == 0:
                                stats.fault("write_zero_mask")
                if tainted:
                    break
                # ---- observe -----------------------------------------------------------------
                got_r = p.get(bus.r_data)
                if prev is not None and prev.next_r[0] == "exact":
                    stats.checks += 1
                    if got_r != prev.next_r[1]:
                        which = names[prev.hit.idx] if prev.hit is not None else "unmapped"
                        cls = {"enable": "enable-does-not-read-back",
                               "pending": "pending-read-not-a-snapshot"}.get(which,
                                                                             "read-data-nonzero")
                        raise Violation("C14", cls, t,
                                        f"r_data={got_r:#x} expected {prev.next_r[1]:#x} "
                                        f"({which} chunk at {prev_addr})")
                    if prev.hit is not None and prev_rs and prev_addr == prev.hit.end - 1:
                        stats.work += 1
                gi = p.get(dut.src.i)
                stats.checks += 1
                if gi != int((enable & mon.pending) != 0):
                    raise Violation("C14", "interrupt-line-not-enable-and-pending", t,
                                    f"src.i={gi} enable={enable:#x} pending={mon.pending:#x}")
                trg = mon.trg(lv)
                if clear & trg:
                    stats.fault("event_in_clearing_cycle")
                if tag == "gap":
                    stats.fault("gap")
                if tag == "raw":
                    stats.fault("stray_unassigned_access")
                if tag == "txn-abort" and (t + 1 == len(cycles) or cycles[t + 1][4] != "txn-abort"):
                    stats.fault("abort")
                if rf.cur == 1 and trg and not e.txn_start:
                    stats.fault("events_between_chunks" if ws else "read_while_events_arrive")
                hist.rec(t, got_r, gi)
                # ---- advance -----------------------------------------------------------------
                mon.step(lv, clear)
                if new_enable is not None:
                    enable = new_enable
                    stats.work += 1
                prev, prev_addr, prev_rs = e, addr, rs
                if tag == "reset":
                    # fault: the domain is reset in this (idle) cycle, possibly between the chunks
                    # of a transaction: nothing enabled, nothing pending, previous inputs low
                    enable = 0
                    mon.pending = 0
                    mon.prev = [0] * n
                    rf._break()
                    stats.fault("domain_reset")
                await ctx.tick()
            stats.cycles += len(cycles)

        hw.run_tb(sim, tb)

    def simplify_op(self, op):
        if op.get("k") == "txn":
            if any(op.get("gaps") or []):
                yield dict(op, gaps=[])
            if op.get("mode") == "rw":
                yield dict(op, mode="r")
                yield dict(op, mode="w")

    def shrink_config(self, config, ops):
        if config["attach"] != "direct":
            yield dict(config, attach="direct"), ops
        if config["al"]:
            yield dict(config, al=0), ops
        if len(config["srcs"]) > 1:
            yield dict(config, srcs=config["srcs"][:-1]), ops
            yield dict(config, srcs=config["srcs"][:len(config["srcs"]) // 2]), ops

    def sample(self, config, ops):
        return {"config": config, "first_ops": ops[:6], "n_ops": len(ops)}


def _pad_bus(csr, dw):
    from amaranth_soc.memory import MemoryMap
    b = csr.Interface(addr_width=1, data_width=dw, path=("pad",))
    b.memory_map = MemoryMap(addr_width=1, data_width=dw)
    return b


WORLD = CsrEvMonWorld()
