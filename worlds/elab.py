"""World `elab` — C19: every accepted component elaborates, terminates, and does so repeatably.

History on one component instance: construct -> a seeded sequence of {elaborate to RTLIL, simulate
a stimulus burst} steps (the "restart" fault: the same instance is elaborated again and again,
simulated and then synthesised or the other way round) -> query its metadata. Every component
class and the configuration generators of all other worlds are used."""
import hashlib
import signal

from simkit.core import World, Violation, Refused
from simkit.rng import cval
from simkit import hw
from worlds.components import FACTORIES, ORDER

ELAB_TIMEOUT_S = 60


class _Timeout(Exception):
    pass


def _alarm(signum, frame):
    raise _Timeout()


class ElabWorld(World):
    name = "elab"
    properties = ("C19",)
    real_components = tuple(ORDER) + ("amaranth Fragment.get / rtlil.convert / Simulator",)
    stub_components = ("free-standing subordinate / initiator interfaces and register element "
                       "ports driven by seeded values",)
    fault_kinds = ("re_elaboration", "simulate_then_convert", "convert_then_simulate",
                   "repeated_conversion", "extended_after_elaboration",
                   "two_instances_in_one_design")
    assumptions = (
        "RTLIL text equality of successive conversions is taken as 'the same hardware'; trace "
        "equality of two simulations under identical stimulus as its behavioural counterpart",
        "a constructor raising ValueError or TypeError is a legal refusal; any exception after "
        "acceptance, RecursionError and a 60 s watchdog (typical elaboration: 0.05 s) are violations",
    )

    def runs(self, prop, tier):
        return {"quick": 3000, "thorough": 40000}[tier]

    def rule(self, prop):
        return ("cases = (component class, configuration, elaborate/simulate history); non-trivial "
                "= the configuration was accepted and the instance was elaborated at least twice; "
                "distinct = distinct (config, ops, observed-history) digests")

    def gen_config(self, rng, prop):
        cls = rng.choice(ORDER + ["csr.Multiplexer"] * 3 + ["csr.Bridge", "wishbone.Decoder"])
        gen, _ = FACTORIES[cls]
        return {"cls": cls, "cfg": gen(rng.sub("cfg")), "burst": rng.range(6, 16),
                "stim": rng.bits(32)}

    def gen_ops(self, rng, config, prop):
        ops = []
        for _ in range(rng.range(2, 4)):
            ops.append({"k": rng.choice(["rtlil", "rtlil", "sim"])})
        if rng.chance(0.25):
            ops.insert(rng.below(len(ops) + 1), {"k": "pair"})
        return ops

    def run(self, config, ops, props, stats, hist):
        from amaranth.back import rtlil
        cls = config["cls"]
        _, build = FACTORIES[cls]
        try:
            b = build(config["cfg"])
        except Refused:
            raise
        except Violation:
            raise
        except Exception as e:
            raise Violation("C19", "construction-failed-with-internal-error", 0,
                            f"{cls}: {type(e).__name__}: {str(e)[:160]}",
                            key=f"construct:{cls}:{type(e).__name__}")
        cls_name = b.cls_name

        def meta():
            out = []
            for mm in b.maps:
                out.append([(id(x.resource), tuple(tuple(n) for n in x.path), x.start, x.end,
                             x.width) for x in mm.all_resources()])
                out.append([(id(w), None if n is None else tuple(n), rg)
                            for w, n, rg in mm.windows()])
            for em in b.event_maps:
                out.append([(id(s), i) for s, i in em.sources()])
            return out

        meta0 = meta()
        ports = [s for _, s in b.inputs + b.outputs]
        texts = []
        traces = []
        n_elab = 0

        def guarded(step, what, fn):
            nonlocal n_elab
            n_elab += 1
            phase = "first" if n_elab == 1 else "repeat"
            old = signal.signal(signal.SIGALRM, _alarm)
            signal.alarm(ELAB_TIMEOUT_S)
            try:
                return fn()
            except _Timeout:
                raise Violation("C19", "elaboration-does-not-terminate", step,
                                f"{cls_name}: {what} exceeded {ELAB_TIMEOUT_S}s",
                                key=f"{phase}:{cls_name}:timeout")
            except RecursionError:
                raise Violation("C19", "elaboration-does-not-terminate", step,
                                f"{cls_name}: unbounded recursion during {what} "
                                f"(elaboration #{n_elab})",
                                key=f"{phase}:{cls_name}:RecursionError")
            except Violation:
                raise
            except Exception as e:
                cls_v = "accepted-component-fails-to-elaborate" if n_elab == 1 else \
                    "repeated-elaboration-fails"
                raise Violation("C19", cls_v, step,
                                f"{cls_name}: {what} (elaboration #{n_elab}) raised "
                                f"{type(e).__name__}: {str(e)[:160]}",
                                key=f"{phase}:{cls_name}:{type(e).__name__}")
            finally:
                signal.alarm(0)
                signal.signal(signal.SIGALRM, old)

        def simulate(step):
            from amaranth.sim import Simulator
            top = hw.make_top(b.dut)
            sim = guarded(step, "Simulator()", lambda: Simulator(top))
            sim.add_clock(1e-6)
            trace = []

            async def tb(ctx):
                p = hw.Pins(ctx)
                for t in range(config["burst"]):
                    for i, (nm, s) in enumerate(b.inputs):
                        p.drive_input("C19", f"{cls_name}.{nm}", s, cval(config["stim"], i, t, len(s)))
                    trace.append(tuple(p.get(s) for _, s in b.outputs))
                    await ctx.tick()
            hw.run_tb(sim, tb)
            stats.cycles += config["burst"]
            return trace

        for step, op in enumerate(ops):
            k = op.get("k")
            if k == "rtlil":
                txt = guarded(step, "rtlil.convert()",
                              lambda: rtlil.convert(b.dut, ports=ports))
                texts.append(txt)
                stats.checks += 1
                if txt != texts[0]:
                    raise Violation("C19", "elaborations-yield-different-hardware", step,
                                    f"{cls_name}: RTLIL of conversion #{len(texts)} differs from #1",
                                    key=f"rtlil-differs:{cls_name}")
                if traces:
                    stats.fault("simulate_then_convert")
                if len(texts) > 1:
                    stats.fault("repeated_conversion")
            elif k == "pair":
                # a second instance built from the same parameters lives in the same design
                # (two identical register banks / decoders / memories side by side)
                twin2 = build(config["cfg"])
                top = hw.make_top(b.dut, twin2.dut)
                both = ports + [s for _, s in twin2.inputs + twin2.outputs]
                guarded(step, "rtlil.convert() of a design with two instances",
                        lambda: rtlil.convert(top, ports=both))
                stats.fault("two_instances_in_one_design")
                hist.rec(step, k)
                continue
            elif k == "sim":
                tr = simulate(step)
                traces.append(tr)
                stats.checks += 1
                if tr != traces[0]:
                    raise Violation("C19", "elaborations-behave-differently", step,
                                    f"{cls_name}: simulation #{len(traces)} of the same instance "
                                    f"under the same stimulus differs from #1",
                                    key=f"trace-differs:{cls_name}")
                if texts:
                    stats.fault("convert_then_simulate")
            else:
                continue
            if n_elab > 1:
                stats.fault("re_elaboration")
            stats.checks += 1
            if meta() != meta0:
                raise Violation("C19", "elaboration-altered-metadata", step,
                                f"{cls_name}: memory map / event map reports changed",
                                key=f"metadata:{cls_name}")
            hist.rec(step, k, hashlib.blake2b(texts[-1].encode(), digest_size=8).hexdigest()
                     if k == "rtlil" else traces[-1])
        # ---- a further legal configuration call must behave as on a never-elaborated twin ------
        if b.extend is not None and n_elab >= 1:
            twin = build(config["cfg"])

            def outcome(fn):
                try:
                    return ("ok", repr(fn()))
                except Exception as e:
                    return ("raised", type(e).__name__)
            got, want = outcome(b.extend), outcome(twin.extend)
            stats.checks += 1
            stats.fault("extended_after_elaboration")
            if got != want:
                raise Violation("C19", "elaboration-altered-metadata", len(ops),
                                f"{cls_name}: after elaboration a further add() gives {got}, on a "
                                f"never-elaborated instance of the same configuration {want}",
                                key=f"extend-after-elaboration:{cls_name}")
            if got[0] == "ok":
                # ... and the extended component must elaborate to the hardware a component
                # gets that was extended before it was ever elaborated
                t1 = guarded(len(ops), "rtlil.convert() after a further add()",
                             lambda: rtlil.convert(b.dut, ports=ports))
                t2 = rtlil.convert(twin.dut, ports=[s for _, s in twin.inputs + twin.outputs])
                stats.checks += 1
                if t1 != t2:
                    raise Violation("C19", "elaborations-yield-different-hardware", len(ops),
                                    f"{cls_name}: extended after an elaboration, it converts to "
                                    f"different hardware than a twin extended before any elaboration",
                                    key=f"extend-then-elaborate-differs:{cls_name}")
        if n_elab >= 2:
            stats.work += 1
        stats.state("class(elaborations)", f"{cls_name},{min(n_elab, 4)}")
        stats.probe("class_" + cls, 1)

    def shrink_config(self, config, ops):
        # delegate to the world whose generator produced the component configuration
        sub = {"csr.Multiplexer": "mux", "wishbone.Decoder": "wbdec", "wishbone.Arbiter": "arbiter",
               "WishboneSRAM": "sram", "gpio.Peripheral": "gpio"}.get(config["cls"])
        if sub is None:
            return
        from worlds import get_world
        for c, _ in get_world(sub).shrink_config(config["cfg"], []):
            yield dict(config, cfg=c), ops

    def sample(self, config, ops):
        return {"config": config, "ops": ops}


WORLD = ElabWorld()
