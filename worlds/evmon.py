"""World `evmon` — C13: event.Monitor never loses an event; EventMap numbering.

Phase 1 (no clock): a call history on event.EventMap (add with repeats and foreign objects, index,
sources, size, freeze, add-after-freeze) against a list model.
Phase 2 (clocked): the real event.Monitor over that map; every cycle arbitrary source levels,
enable and clear masks; model = previous-level trigger rule + pending recurrence."""
from simkit.core import World, Violation
from simkit import hw
from models.evmon import MonitorModel

TRIGGERS = ["level", "rise", "fall"]


class EvMonWorld(World):
    name = "evmon"
    properties = ("C13",)
    real_components = ("event.Monitor", "event.EventMap", "event.Source")
    stub_components = ("event source lines, enable and clear masks (seeded agent)",)
    fault_kinds = ("clear_and_trigger_same_cycle", "one_cycle_pulse", "edges_in_consecutive_cycles",
                   "clear_of_non_pending", "repeated_add", "foreign_object", "add_after_freeze",
                   "second_instance_in_process", "source_also_in_another_event_map",
                   "domain_reset", "refused_monitor_construction")
    assumptions = (
        "a reset of the clock domain returns the component to its initial state (the state the "
        "property calls initial is the state after reset, as for every Amaranth register)",
        "Amaranth's Python RTL simulator executes the elaborated netlist faithfully",
        "'pending becomes set the cycle after its source triggers' is read as a registered update "
        "on the clock edge ending the trigger cycle",
    )

    def runs(self, prop, tier):
        return {"quick": 6000, "thorough": 80000}[tier]

    def state_targets(self, prop, states):
        k = "bit(pending,trg,clear,mode)"
        return {k: {"reached": len(states.get(k, ())), "feasible": 24}}

    def gen_config(self, rng, prop):
        n = rng.choice([0, 1, 1, 2, 3, 4, 5, 8, 12, 17, 33])
        if rng.chance(0.008):
            n = rng.choice([129, 140, 258, 300])     # very large maps (few cycles are simulated)
        return {"srcs": [rng.choice(TRIGGERS) for _ in range(n)],
                "trigger": rng.choice(TRIGGERS), "decoy": int(rng.chance(0.1)),
                "omit": int(rng.chance(0.3))}

    def gen_ops(self, rng, config, prop):
        n = len(config["srcs"])
        ops = []
        order = list(range(n))
        rng.shuffle(order)
        for j in order:
            ops.append({"k": "add", "s": j})
            if rng.chance(0.3) and n:
                ops.append({"k": "add", "s": rng.below(n)})        # repeat
            if rng.chance(0.2) and n:
                ops.append({"k": "index", "s": rng.below(n)})
            if rng.chance(0.08):
                ops.append({"k": "addbad"})
            if rng.chance(0.05):
                ops.append({"k": "badmon"})
        if rng.chance(0.2) and n:
            # the same source objects are also members of another event map (other order)
            other = list(range(n))
            rng.shuffle(other)
            at = rng.below(len(ops) + 1)
            for j in other[:rng.range(1, n)]:
                ops.insert(min(at, len(ops)), {"k": "add_other", "s": j})
        if rng.chance(0.2):
            ops.append({"k": "freeze"})
            if n:
                ops.append({"k": "add", "s": rng.below(n)})
            ops.append({"k": "addnew"})
        p_lv = rng.choice([0.1, 0.3, 0.5, 0.9])
        p_clr = rng.choice([0.05, 0.3, 0.7])
        p_rst = rng.choice([0, 0, 0, 0.03])
        for t in range(rng.range(40, 120) if n < 100 else rng.range(8, 16)):
            lv = 0
            clr = 0
            for i in range(n):
                lv |= int(rng.chance(p_lv)) << i
                clr |= int(rng.chance(p_clr)) << i
            ops.append({"k": "cyc", "lv": lv, "en": rng.bits(n) if rng.chance(0.3) else None,
                        "clr": clr, "rst": int(rng.chance(p_rst))})
        return ops

    def run(self, config, ops, props, stats, hist):
        from amaranth_soc import event
        n_cfg = len(config["srcs"])
        omit = config.get("omit")
        srcs = [event.Source(path=(f"s{i}",), **hw.spelled(omit, {"trigger": "level"}, trigger=tr))
                for i, tr in enumerate(config["srcs"])]
        em = event.EventMap()
        other_map = event.EventMap()
        order = []           # model: sources in order of first addition
        frozen = False
        extra = []

        def check_map(step):
            stats.checks += 1
            got = [(id(s), i) for s, i in em.sources()]
            want = [(id(s), i) for i, s in enumerate(order)]
            if got != want or em.size != len(order):
                raise Violation("C13", "event-map-numbering", step,
                                f"sources()/size report {[(g[1]) for g in got]}/{em.size}, "
                                f"model has {len(order)} sources in first-addition order")
            for i, s in enumerate(order):
                if em.index(s) != i:
                    raise Violation("C13", "event-map-numbering", step,
                                    f"index() of source added {i}th is {em.index(s)}")

        step = 0
        for op in ops:
            k = op.get("k")
            if k == "cyc":
                continue
            step += 1
            stats.steps += 1
            if k in ("add", "addnew"):
                if k == "add":
                    if not srcs:
                        continue
                    s = srcs[int(op.get("s", 0)) % len(srcs)]
                else:
                    s = event.Source(path=("extra",))
                    extra.append(s)
                try:
                    em.add(s)
                    ok = True
                except ValueError:
                    ok = False
                if ok and frozen:
                    raise Violation("C13", "event-map-add-after-freeze-accepted", step, "")
                if not ok and not frozen:
                    raise Violation("C13", "event-map-add-refused", step, "")
                if ok:
                    if any(s is o for o in order):
                        stats.fault("repeated_add")
                    else:
                        order.append(s)
                        stats.work += 1
                else:
                    stats.fault("add_after_freeze")
            elif k == "addbad":
                try:
                    em.add("not a source")
                    raise Violation("C13", "event-map-foreign-object-accepted", step, "")
                except (TypeError, ValueError):
                    stats.fault("foreign_object")
            elif k == "index" and srcs:
                s = srcs[int(op.get("s", 0)) % len(srcs)]
                pos = [i for i, o in enumerate(order) if o is s]
                try:
                    got = em.index(s)
                except KeyError:
                    got = None
                if got != (pos[0] if pos else None):
                    raise Violation("C13", "event-map-numbering", step,
                                    f"index() = {got}, expected {pos[0] if pos else 'KeyError'}")
            elif k == "freeze":
                em.freeze()
                frozen = True
            elif k == "badmon":
                # a csr.EventMonitor construction that is refused for its bus parameters must not
                # touch the map (which was never handed to a monitor)
                from amaranth_soc import csr as _csr
                try:
                    _csr.EventMonitor(em, data_width=0)
                    raise Violation("C13", "invalid-monitor-accepted", step, "data_width=0")
                except (ValueError, TypeError):
                    stats.fault("refused_monitor_construction")
            elif k == "add_other" and srcs:
                other_map.add(srcs[int(op.get("s", 0)) % len(srcs)])
                stats.fault("source_also_in_another_event_map")
            check_map(step)
            hist.rec("map", k, len(order))

        dut = hw.must_accept("C13", f"event.Monitor({len(order)} sources, trigger={config['trigger']})",
                             event.Monitor, em,
                             **hw.spelled(omit, {"trigger": "level"}, trigger=config["trigger"]))
        check_map(step + 1)     # constructing the monitor must not renumber anything
        # ... and from now on the numbering is final: the map is frozen by use, before anything
        # else looks at it
        try:
            em.add(event.Source(path=("late",)))
            raise Violation("C13", "event-map-add-after-monitor-accepted", step + 1,
                            f"a source was added to the event map of an existing "
                            f"monitor (its masks were sized for {len(order)} sources)")
        except ValueError:
            stats.fault("add_after_freeze")
        check_map(step + 2)
        if config.get("decoy"):
            em2 = event.EventMap()
            em2.add(event.Source(trigger="rise", path=("decoy",)))
            hw.elaborate_once(event.Monitor(em2, trigger="fall"))
            stats.fault("second_instance_in_process")
        n = len(order)
        trigs = [s.trigger.value for s in order]
        model = MonitorModel(trigs)
        top, rst = hw.make_top_with_reset(dut)
        sim = hw.build_sim(top)
        cyc_ops = [op for op in ops if op.get("k") == "cyc"]
        idx_of = {}
        for i, s in enumerate(srcs):
            for b, o in enumerate(order):
                if o is s:
                    idx_of[i] = b

        async def tb(ctx):
            p = hw.Pins(ctx)
            enable = 0
            last_trg = 0
            last_clear = 0
            prevprev = 0
            prev_lv = 0
            for t, op in enumerate(cyc_ops):
                lv_cfg = int(op.get("lv", 0))
                clr_cfg = int(op.get("clr", 0))
                # config source i drives model bit idx_of[i]
                lv = 0
                clr = 0
                for i in range(n_cfg):
                    if i in idx_of:
                        lv |= ((lv_cfg >> i) & 1) << idx_of[i]
                        clr |= ((clr_cfg >> i) & 1) << idx_of[i]
                for b, o in enumerate(order):
                    p.set(o.i, (lv >> b) & 1)
                if op.get("en") is not None:
                    enable = int(op["en"]) & ((1 << n) - 1)
                if n:
                    p.set(dut.enable, enable)
                    p.set(dut.clear, clr)
                in_reset = int(op.get("rst") or 0) & 1
                p.set(rst, in_reset)
                # ---- observe / check -----------------------------------------------------
                pend = p.get(dut.pending) if n else 0
                stats.checks += 1
                if pend != model.pending:
                    lost = last_trg & ~pend
                    cls = "event-lost" if lost else "pending-wrong"
                    raise Violation("C13", cls, t,
                                    f"pending={pend:#x} expected {model.pending:#x} "
                                    f"(previous cycle trg={last_trg:#x} clear={last_clear:#x})")
                trg = model.trg(lv)
                for b, o in enumerate(order):
                    g = p.get(o.trg)
                    stats.checks += 1
                    if g != (trg >> b) & 1:
                        raise Violation("C13", "trigger-not-per-mode", t,
                                        f"source bit {b} ({trigs[b]}): trg={g} expected "
                                        f"{(trg >> b) & 1} (level {(lv >> b) & 1}, previous "
                                        f"{model.prev[b]})")
                gi = p.get(dut.src.i)
                stats.checks += 1
                if gi != int((enable & model.pending) != 0):
                    raise Violation("C13", "outgoing-line-wrong", t,
                                    f"src.i={gi} enable={enable:#x} pending={model.pending:#x}")
                if trg & clr:
                    stats.fault("clear_and_trigger_same_cycle")
                if clr & ~model.pending & ~trg:
                    stats.fault("clear_of_non_pending")
                pulse = prev_lv & ~prevprev & ~lv
                if pulse:
                    stats.fault("one_cycle_pulse")
                if (prev_lv ^ prevprev) & (lv ^ prev_lv):
                    stats.fault("edges_in_consecutive_cycles")
                if trg:
                    stats.work += 1
                for b in range(n):
                    stats.state("bit(pending,trg,clear,mode)",
                                f"{(model.pending >> b) & 1}{(trg >> b) & 1}{(clr >> b) & 1}"
                                f"{trigs[b][0]}")
                hist.rec(t, pend, trg, gi)
                prevprev, prev_lv = prev_lv, lv
                last_trg, last_clear = trg, clr
                model.step(lv, clr)
                if in_reset:
                    # fault: the monitor's clock domain is reset at this edge while the lines
                    # carry whatever they carry: everything restarts as from power-up (nothing
                    # pending, previous input low)
                    model.pending = 0
                    model.prev = [0] * n
                    stats.fault("domain_reset")
                    if lv:
                        stats.probe("reset_while_a_line_is_high")
                await ctx.tick()
            stats.cycles += len(cyc_ops)

        hw.run_tb(sim, tb)

    def simplify_op(self, op):
        if op.get("k") == "cyc":
            if op.get("clr"):
                yield dict(op, clr=0)
            if op.get("rst"):
                yield dict(op, rst=0)
            if op.get("en") not in (None,):
                yield dict(op, en=None)

    def shrink_config(self, config, ops):
        srcs = config["srcs"]
        for j in range(len(srcs) - 1, -1, -1):
            def drop(v):
                lo = v & ((1 << j) - 1)
                return lo | ((v >> (j + 1)) << j)
            o = []
            for op in ops:
                if op.get("k") == "cyc":
                    op = dict(op, lv=drop(int(op.get("lv", 0))), clr=drop(int(op.get("clr", 0))),
                              en=None if op.get("en") is None else drop(int(op["en"])))
                elif op.get("k") in ("add", "index"):
                    s = int(op.get("s", 0)) % len(srcs)
                    if s == j:
                        continue
                    op = dict(op, s=s - 1 if s > j else s)
                o.append(op)
            yield dict(config, srcs=srcs[:j] + srcs[j + 1:]), o

    def sample(self, config, ops):
        return {"config": config, "first_ops": ops[:10], "n_ops": len(ops)}


WORLD = EvMonWorld()
