"""World `fields` — C11 (register field packing / strobing) and C12 (field action storage rules).

C11: real csr.Register over *mock* field actions (bare field ports driven by the agent), so the
check decides the register's wiring and not the actions' semantics. Random nestings of dicts and
lists (and annotation-defined classes), unsigned / signed / enum / zero-width shapes, every field
and register access mode, including combinations that must be refused.
C12: one real field action (R, W, RW, RW1C, RW1S, reserved) stand-alone; every cycle arbitrary
strobes, write data and hardware set/clear inputs (all bits jointly)."""
from simkit.core import World, Violation, Refused
from simkit import hw

ACCESS = ["r", "w", "rw", "nc"]
ACTIONS = ["R", "W", "RW", "RW1C", "RW1S", "ResRAW0", "ResRAWL", "ResR0WA", "ResR0W0"]


def shape_width(sh):
    if sh[0] == "e":
        return 3
    if sh[0] == "arr":
        return sh[1] * sh[2]
    if sh[0] == "struct":
        return sum(sh[1])
    return sh[1]


def make_shape(sh):
    from amaranth import unsigned, signed
    from amaranth.lib import enum as aenum
    if sh[0] == "u":
        return unsigned(sh[1])
    if sh[0] == "s":
        return signed(sh[1])
    if sh[0] == "arr":
        from amaranth.lib import data
        return data.ArrayLayout(unsigned(sh[1]), sh[2])
    if sh[0] == "struct":
        from amaranth.lib import data
        return data.StructLayout({f"m{i}": unsigned(w) for i, w in enumerate(sh[1])})

    class E3(aenum.Enum, shape=3):
        A = 0
        B = 5
        C = 7
    return E3


def make_init(sh, init):
    """Constructor argument for `init` (aggregate shapes need a sequence / mapping)."""
    if sh[0] == "arr":
        return list(init)
    if sh[0] == "struct":
        return {f"m{i}": v for i, v in enumerate(init)}
    return init


def init_value(sh, init):
    """Packed unsigned value of an init argument."""
    if init is None:
        return 0
    if sh[0] == "arr":
        return sum((v & ((1 << sh[1]) - 1)) << (i * sh[1]) for i, v in enumerate(init))
    if sh[0] == "struct":
        out, off = 0, 0
        for w, v in zip(sh[1], init):
            out |= (v & ((1 << w) - 1)) << off
            off += w
        return out
    return init & ((1 << shape_width(sh)) - 1)


def leaves_of(node, path=()):
    """Independent recursive walk of the *input* description, declaration order."""
    if node["t"] == "field":
        yield path, node
    elif node["t"] == "dict":
        subs = [s for _, s in node["items"]]
        for name, sub in node["items"]:
            if sub["t"] == "ref":       # the same Python object as an earlier sibling collection
                sub = subs[sub["to"]]
            yield from leaves_of(sub, path + (name,))
    else:
        for i, sub in enumerate(node["items"]):
            if sub["t"] == "ref":
                sub = node["items"][sub["to"]]
            yield from leaves_of(sub, path + (i,))


class FieldsWorld(World):
    name = "fields"
    properties = ("C11", "C12")
    real_components = ("csr.Register / FieldActionMap / FieldActionArray (C11)",
                       "csr.action.R, W, RW, RW1C, RW1S, ResRAW0, ResRAWL, ResR0WA, ResR0W0 (C12)")
    stub_components = ("C11: field actions are mocks exposing only their FieldPort",
                       "element-port / field-port drivers (seeded agents)")
    fault_kinds = ("incompatible_access_combination", "write_and_hw_same_bit_same_cycle",
                   "back_to_back_writes", "strobe_without_data_change", "read_and_write_same_cycle",
                   "domain_reset")
    assumptions = (
        "Amaranth's Python RTL simulator executes the elaborated netlist faithfully",
        "a reset of the clock domain returns a field to its initial state (the property's "
        "'initial value' is the value after reset, as for every Amaranth register)",
        "no schedule matters for C11 (combinational wiring): simulation only establishes that the "
        "wiring is checked in the elaborated netlist on every generated collection shape",
    )

    def runs(self, prop, tier):
        return {"quick": 6000, "thorough": 80000}[tier]

    def state_targets(self, prop, states):
        out = {}
        k = "action(kind,width,storage,w_stb,w_data,hw)"
        if k in states:
            for act in ("RW", "RW1C", "RW1S"):
                for w in (1, 2):
                    reached = sum(1 for s in states[k] if s.startswith(f"{act},{w},"))
                    feasible = (2 ** w) * 2 * (2 ** w) * (1 if act == "RW" else 2 ** w)
                    out[f"{act} width {w}"] = {"reached": reached, "feasible": feasible}
        return out

    # ------------------------------------------------------------------------------------------
    def _gen_shape(self, rng):
        k = rng.below(20)
        if rng.chance(0.08):
            return ["arr", rng.range(1, 4), rng.range(1, 4)]
        if rng.chance(0.05):
            return ["struct", [rng.range(1, 4) for _ in range(rng.range(1, 3))]]
        if k == 0:
            return ["u", rng.choice([12, 16, 17, 31, 32, 33])]
        if k == 1:
            return ["s", rng.choice([12, 16, 17, 31, 32, 33])]
        k //= 2
        if k < 5:
            return ["u", rng.range(0, 9)]
        if k < 8:
            return ["s", rng.range(1, 9)]
        return ["e"]

    def _gen_coll(self, rng, depth, racc):
        k = rng.below(100)
        if depth >= 3 or k < (25 if depth == 0 else 50):
            # bias towards compatible access so that most registers are accepted
            if rng.chance(0.85):
                pool = [a for a in ACCESS if a == "nc" or all(c in racc for c in a)]
            else:
                pool = ACCESS
            return {"t": "field", "shape": self._gen_shape(rng), "access": rng.choice(pool)}
        items = [self._gen_coll(rng, depth + 1, racc) for i in range(rng.range(1, 3))]
        if rng.chance(0.12) and items[0]["t"] in ("dict", "list"):
            # an array of records that are alike except that one has an extra trailing field
            import copy
            rec = items[0]
            odd = copy.deepcopy(rec)
            extra = {"t": "field", "shape": ["u", rng.range(1, 3)], "access": rec["items"][0][1]["access"]
                     if rec["t"] == "dict" and rec["items"][0][1]["t"] == "field" else "nc"}
            if odd["t"] == "dict":
                odd["items"].append(["zz_extra", extra])
            else:
                odd["items"].append(extra)
            n_ = rng.range(2, 4)
            at_ = rng.below(n_)
            return {"t": "list", "items": [copy.deepcopy(odd) if j == at_ else copy.deepcopy(rec)
                                           for j in range(n_)]}
        colls = [j for j, it in enumerate(items) if it["t"] in ("dict", "list")]
        if colls and rng.chance(0.25):
            # the user re-uses one collection object for several channels (ch0 = ch1 = chan)
            items.append({"t": "ref", "to": rng.choice(colls)})
        if k < 75:
            # any non-empty string is a legal field name (reserved gaps are often `_rsvd0`)
            style = rng.choice(["f{}", "f{}", "f{}", "_f{}", "_rsvd{}", "f{}_", "F{}", "__f{}", None])
            if style is None:
                # ordinary words that happen to be method names of Python mappings / of the
                # collection classes are legal field names too
                words = ["items", "flatten", "keys", "values", "get", "count", "index", "access"]
                off = rng.below(len(words))
                return {"t": "dict", "items": [[words[(off + i) % len(words)], it]
                                               for i, it in enumerate(items)]}
            named = [[style.format(i), it] for i, it in enumerate(items)]
            if rng.chance(0.1):
                # a key that spells the path of a sibling's nested field (any string is a name)
                k0, it0 = named[0]
                if it0["t"] == "dict":
                    spelled = f"{k0}.{it0['items'][0][0]}"
                elif it0["t"] == "list":
                    spelled = f"{k0}[{len(it0['items']) - 1}]"
                else:
                    spelled = f"{k0}.x"
                named.append([spelled, {"t": "field", "shape": ["u", rng.range(1, 4)],
                                        "access": it0.get("access", "nc") if it0["t"] == "field" else "nc"}])
            return {"t": "dict", "items": named}
        return {"t": "list", "items": items}

    def gen_config(self, rng, prop):
        if prop == "C11":
            racc = rng.choice(["r", "w", "rw", "rw"])
            coll = self._gen_coll(rng, 0, racc)
            annot = int(coll["t"] == "dict" and rng.chance(0.4))
            return {"kind": "register", "access": racc, "coll": coll, "annot": annot,
                    "annot_base": int(bool(annot) and rng.chance(0.3)),
                    "annot_sub": int(bool(annot) and rng.chance(0.25)),
                    "annot_late_access": int(bool(annot) and rng.chance(0.3))}
        if rng.chance(0.2):
            from worlds.components import gen_register
            return {"kind": "regreal", "reg": gen_register(rng)}
        act = rng.choice(ACTIONS[:5] * 3 + ACTIONS[5:])
        sh = self._gen_shape(rng) if rng.chance(0.5) else ["u", rng.range(1, 3)]
        w = shape_width(sh)
        init = None
        if act in ("RW", "RW1C", "RW1S") and sh[0] == "arr":
            init = [rng.bits(sh[1]) if rng.chance(0.5) else 0 for _ in range(sh[2])]
        elif act in ("RW", "RW1C", "RW1S") and sh[0] == "struct":
            init = [rng.bits(w_) if rng.chance(0.5) else 0 for w_ in sh[1]]
        elif act in ("RW", "RW1C", "RW1S") and w and rng.chance(0.6):
            if sh[0] == "e":
                init = rng.choice([0, 5, 7])
            elif sh[0] == "s":
                init = rng.range(-(1 << (w - 1)), (1 << (w - 1)) - 1)
            else:
                init = rng.bits(w)
        return {"kind": "action", "act": act, "shape": sh, "init": init}

    def gen_ops(self, rng, config, prop):
        ops = []
        if config["kind"] == "regreal":
            leaves = list(leaves_of(config["reg"]["coll"]))
            W = sum(shape_width(l["shape"]) for _, l in leaves)
            for t in range(rng.range(20, 50)):
                ops.append({"rs": rng.below(2), "ws": rng.below(2), "wd": rng.bits(W),
                            "fv": [rng.bits(shape_width(l["shape"])) if rng.chance(0.5) else 0
                                   for _, l in leaves]})
            return ops
        if config["kind"] == "register":
            leaves = list(leaves_of(config["coll"]))
            W = sum(shape_width(l["shape"]) for _, l in leaves)
            for t in range(rng.range(20, 50)):
                ops.append({"rs": rng.below(2), "ws": rng.below(2), "wd": rng.bits(W),
                            "fv": [rng.bits(shape_width(l["shape"])) for _, l in leaves]})
        else:
            w = shape_width(config["shape"])
            p_ws = rng.choice([0.2, 0.5, 0.9])
            p_hw = rng.choice([0.0, 0.3, 0.8])
            p_rst = rng.choice([0, 0, 0, 0.03])
            prev_wd = 0
            for t in range(rng.range(30, 90)):
                wd = prev_wd if rng.chance(0.2) else rng.bits(w)
                ops.append({"rs": rng.below(2), "ws": int(rng.chance(p_ws)), "wd": wd,
                            "hw": rng.bits(w) & (rng.bits(w) if rng.chance(0.5) else (1 << w) - 1)
                            if rng.chance(p_hw) or config["act"] in ("R",) else 0,
                            "rst": int(rng.chance(p_rst))})
                prev_wd = wd
        return ops

    # ------------------------------------------------------------------------------------------
    def run(self, config, ops, props, stats, hist):
        if config["kind"] == "regreal":
            if "C12" in props:
                self.run_regreal(config, ops, stats, hist)
        elif config["kind"] == "register":
            if "C11" in props:
                self.run_register(config, ops, stats, hist)
        else:
            if "C12" in props:
                self.run_action(config, ops, stats, hist)

    def run_register(self, config, ops, stats, hist):
        from amaranth import Module
        from amaranth_soc import csr

        class MockAction(csr.FieldAction):
            def __init__(self, shape, access):
                super().__init__(shape, access)

            def elaborate(self, platform):
                return Module()

        def build(node):
            if node["t"] == "field":
                return csr.Field(MockAction, make_shape(node["shape"]), node["access"])
            built = []
            for sub in ([s for _, s in node["items"]] if node["t"] == "dict" else node["items"]):
                if sub["t"] == "ref":
                    built.append(built[sub["to"]])      # the very same object, not a copy
                    stats.probe("collection_object_used_twice")
                else:
                    built.append(build(sub))
            if node["t"] == "dict":
                return {name: b_ for (name, _), b_ in zip(node["items"], built)}
            return built

        racc = config["access"]
        leaves = list(leaves_of(config["coll"]))
        legal = all((("r" not in l["access"]) or ("r" in racc)) and
                    (("w" not in l["access"]) or ("w" in racc))
                    for _, l in leaves if l["access"] != "nc")
        coll = build(config["coll"])
        late_access = False
        try:
            if config.get("annot") and isinstance(coll, dict):
                base = csr.Register
                if config.get("annot_base"):
                    # the register class extends another annotated register class, of which an
                    # instance already exists (Python does not merge class annotations)
                    base = type("BaseReg", (csr.Register,),
                                {"__annotations__": {"zz": csr.Field(MockAction, 3, "nc")}},
                                access=racc)
                    base()
                    stats.probe("annotated_subclass_of_instantiated_annotated_class")
                    cls = type("AnnotReg", (base,), {"__annotations__": dict(coll)})
                elif config.get("annot_late_access"):
                    # the class states no access mode; it is given when the register is created
                    cls = type("AnnotReg", (base,), {"__annotations__": dict(coll)})
                    late_access = True
                    stats.probe("annotated_class_without_class_level_access")
                else:
                    cls = type("AnnotReg", (base,), {"__annotations__": dict(coll)}, access=racc)
                if config.get("annot_sub"):
                    # a subclass without annotations of its own (it only overrides behaviour)
                    # has the fields of the class it extends
                    cls = type("SubReg", (cls,), {"verif_marker": 1})
                    stats.probe("unannotated_subclass_of_annotated_class")
                reg = cls(access=racc) if late_access else cls()
            else:
                reg = csr.Register(coll, access=racc)
            ok = True
        except (ValueError, TypeError) as e:
            ok = False
            exc = e
        stats.checks += 1
        if ok and not legal:
            raise Violation("C11", "incompatible-field-access-accepted", 0,
                            f"register access {racc!r} with field accesses "
                            f"{[l['access'] for _, l in leaves]}")
        if not ok and legal:
            raise Violation("C11", "compatible-register-refused", 0,
                            f"{type(exc).__name__}: {str(exc)[:120]}")
        if not ok:
            stats.fault("incompatible_access_combination")
            stats.work += 1
            hist.rec("refused")
            return
        W = sum(shape_width(l["shape"]) for _, l in leaves)
        stats.checks += 1
        if reg.element.width != W:
            raise Violation("C11", "width-not-sum-of-fields", 0,
                            f"element width {reg.element.width}, fields sum to {W}")
        # instantiated actions, located by the same keys/indices as the input (not flatten())
        acts = []
        for path, l in leaves:
            obj = reg.field
            for key in path:
                obj = obj[key]
            acts.append(obj)
        sim = hw.build_sim(hw.make_top(reg))
        el = reg.element
        readable = "r" in racc
        writable = "w" in racc

        async def tb(ctx):
            p = hw.Pins(ctx)
            for t, op in enumerate(ops):
                rs = int(op.get("rs", 0)) & 1 if readable else 0
                ws = int(op.get("ws", 0)) & 1 if writable else 0
                wd = int(op.get("wd", 0)) & ((1 << W) - 1) if writable else 0
                if readable:
                    p.set(el.r_stb, rs)
                if writable:
                    p.set(el.w_stb, ws)
                    if W:
                        p.set(el.w_data, wd)
                fv = list(op.get("fv") or [])
                vals = []
                for i, ((path, l), a) in enumerate(zip(leaves, acts)):
                    w = shape_width(l["shape"])
                    v = (int(fv[i]) if i < len(fv) else 0) & ((1 << w) - 1) if w else 0
                    vals.append(v)
                    if w:
                        sv = v - (1 << w) if (l["shape"][0] == "s" and v >> (w - 1)) else v
                        p.set(a.port.r_data, sv)
                exp = 0
                off = 0
                obs = []
                for i, ((path, l), a) in enumerate(zip(leaves, acts)):
                    w = shape_width(l["shape"])
                    m = (1 << w) - 1
                    acc = l["access"]
                    if "r" in acc and acc != "nc":
                        exp |= vals[i] << off
                    want_r = rs if ("r" in acc and acc != "nc") else 0
                    want_w = ws if ("w" in acc and acc != "nc") else 0
                    gr, gw = p.get(a.port.r_stb), p.get(a.port.w_stb)
                    obs += [gr, gw]
                    stats.checks += 2
                    if gr != want_r:
                        raise Violation("C11", "read-strobe-reaches-wrong-fields", t,
                                        f"field {path} access {acc}: port.r_stb={gr} expected {want_r}")
                    if gw != want_w:
                        raise Violation("C11", "write-strobe-reaches-wrong-fields", t,
                                        f"field {path} access {acc}: port.w_stb={gw} expected {want_w}")
                    if w and "w" in acc and acc != "nc":
                        g = p.get(a.port.w_data) & m
                        stats.checks += 1
                        if g != (wd >> off) & m:
                            raise Violation("C11", "field-write-data-not-own-bit-range", t,
                                            f"field {path} at [{off},{off + w}): w_data={g:#x} "
                                            f"expected {(wd >> off) & m:#x}")
                    off += w
                if readable and W:
                    g = p.get(el.r_data)
                    obs.append(g)
                    stats.checks += 1
                    if g != exp:
                        raise Violation("C11", "register-read-data-not-packed-lsb-first", t,
                                        f"element.r_data={g:#x} expected {exp:#x}")
                if rs and ws:
                    stats.fault("read_and_write_same_cycle")
                stats.work += 1
                hist.rec(t, obs)
                await ctx.tick()
            stats.cycles += len(ops)

        depth = max(len(pth) for pth, _ in leaves)
        stats.probe(f"nesting_depth_{depth}")
        if any(shape_width(l["shape"]) == 0 for _, l in leaves):
            stats.probe("zero_width_field")
        if any(l["shape"][0] == "e" for _, l in leaves):
            stats.probe("enum_field")
        if config.get("annot"):
            stats.probe("annotation_defined")
        hw.run_tb(sim, tb)

    def run_regreal(self, config, ops, stats, hist):
        """C12 through a real register: 'a field's data output always equals what a bus read of
        it returns' - the bus read is the field's bit range of the register's element.r_data."""
        from amaranth import Value
        from worlds.components import build_register
        cfg = config["reg"]
        b = build_register(cfg)
        reg = b.dut
        leaves = list(leaves_of(cfg["coll"]))
        acts = []
        for path, l in leaves:
            obj = reg.field
            for key in path:
                obj = obj[key]
            acts.append(obj)
        sim = hw.build_sim(hw.make_top(reg))
        el = reg.element
        readable, writable = "r" in cfg["access"], "w" in cfg["access"]
        W = sum(shape_width(l["shape"]) for _, l in leaves)

        async def tb(ctx):
            p = hw.Pins(ctx)
            for t, op in enumerate(ops):
                if readable:
                    p.set(el.r_stb, int(op.get("rs", 0)) & 1)
                if writable:
                    p.set(el.w_stb, int(op.get("ws", 0)) & 1)
                    if W:
                        p.set(el.w_data, int(op.get("wd", 0)) & ((1 << W) - 1))
                fv = list(op.get("fv") or [])
                for i, ((path, l), a) in enumerate(zip(leaves, acts)):
                    w = shape_width(l["shape"])
                    v = (int(fv[i]) if i < len(fv) else 0) & ((1 << w) - 1) if w else 0
                    if not w:
                        continue
                    for nm in ("r_data", "set", "clear"):
                        if nm == "r_data" and l["act"] != "R":
                            continue
                        if hasattr(a, nm):
                            p.set(getattr(a, nm), v)
                # R and W fields pass strobes (and W fields their data) through in the same
                # cycle, whatever their width: composed, the field sees the register's strobe
                off = 0
                for (path, l), a in zip(leaves, acts):
                    w = shape_width(l["shape"])
                    if l["act"] == "R" and readable:
                        stats.checks += 1
                        if p.get(a.r_stb) != (int(op.get("rs", 0)) & 1):
                            raise Violation("C12", "R-field-strobe-not-passed-through", t,
                                            f"field {path} (R, width {w}): r_stb={p.get(a.r_stb)} "
                                            f"while the register is read-strobed "
                                            f"{int(op.get('rs', 0)) & 1}")
                    if l["act"] == "W" and writable:
                        stats.checks += 1
                        if p.get(a.w_stb) != (int(op.get("ws", 0)) & 1):
                            raise Violation("C12", "W-field-strobe-not-passed-through", t,
                                            f"field {path} (W, width {w}): w_stb={p.get(a.w_stb)} "
                                            f"while the register is write-strobed "
                                            f"{int(op.get('ws', 0)) & 1}")
                        if w:
                            exp = ((int(op.get("wd", 0)) & ((1 << W) - 1)) >> off) & ((1 << w) - 1)
                            got = p.get(a.w_data) & ((1 << w) - 1)
                            stats.checks += 1
                            if got != exp:
                                raise Violation("C12", "W-field-data-not-passed-through", t,
                                                f"field {path} (W) at bit {off}: w_data={got:#x}, "
                                                f"written {exp:#x}")
                        if not w:
                            stats.probe("zero_width_strobe_field_in_register")
                    off += w
                if readable and W:
                    bus = p.get(el.r_data)
                    off = 0
                    for (path, l), a in zip(leaves, acts):
                        w = shape_width(l["shape"])
                        if w and hasattr(a, "data"):
                            out = p.get(a.data) & ((1 << w) - 1)
                            stats.checks += 1
                            if (bus >> off) & ((1 << w) - 1) != out:
                                raise Violation("C12", "data-output-differs-from-bus-read", t,
                                                f"field {path} ({l['act']}, {l['shape']}) at bit "
                                                f"{off}: data={out:#x}, register read returns "
                                                f"{(bus >> off) & ((1 << w) - 1):#x} "
                                                f"(element.r_data={bus:#x})")
                        off += w
                    stats.work += 1
                hist.rec(t, p.get(el.r_data) if readable and W else 0)
                await ctx.tick()
            stats.cycles += len(ops)

        stats.fault("read_and_write_same_cycle", sum(1 for o in ops if o.get("rs") and o.get("ws")))
        hw.run_tb(sim, tb)

    def run_action(self, config, ops, stats, hist):
        from amaranth_soc.csr import action
        act = config["act"]
        sh = config["shape"]
        w = shape_width(sh)
        m = (1 << w) - 1
        cls = getattr(action, act)
        kw = {}
        if config.get("init") is not None and act in ("RW", "RW1C", "RW1S"):
            kw["init"] = make_init(sh, config["init"])
        a = hw.construct(cls, make_shape(sh), **kw)
        from amaranth import Value
        for nm_ in ("r_stb", "w_stb"):
            if hasattr(a, nm_):
                stats.checks += 1
                if len(Value.cast(getattr(a, nm_))) != 1:
                    raise Violation("C12", "strobe-is-not-one-bit", 0,
                                    f"{act}.{nm_} is {len(Value.cast(getattr(a, nm_)))} bits wide")
        top, rst = hw.make_top_with_reset(a)
        sim = hw.build_sim(top)
        signed = sh[0] == "s"
        stor0 = (init_value(sh, config.get("init")) & m) if act in ("RW", "RW1C", "RW1S") else 0

        def sv(v):
            return v - (1 << w) if (signed and w and v >> (w - 1)) else v

        async def tb(ctx):
            p = hw.Pins(ctx)
            stor = stor0
            prev_ws = 0
            prev_wd = None
            for t, op in enumerate(ops):
                rs, ws = int(op.get("rs", 0)) & 1, int(op.get("ws", 0)) & 1
                wd = int(op.get("wd", 0)) & m
                hwv = int(op.get("hw", 0)) & m
                p.set(a.port.r_stb, rs)
                p.set(a.port.w_stb, ws)
                in_reset = int(op.get("rst") or 0) & 1
                p.set(rst, in_reset)
                if w:
                    p.set(a.port.w_data, sv(wd))
                    if act == "R":
                        p.set(a.r_data, sv(hwv))
                    elif act == "RW1C":
                        p.set(a.set, sv(hwv))
                    elif act == "RW1S":
                        p.set(a.clear, sv(hwv))
                obs = []
                nst = stor
                if act == "R":
                    g = p.get(a.port.r_data) & m if w else 0
                    obs += [g, p.get(a.r_stb)]
                    stats.checks += 2
                    if g != hwv:
                        raise Violation("C12", "R-data-not-passed-through", t,
                                        f"port.r_data={g:#x} r_data={hwv:#x}")
                    if p.get(a.r_stb) != rs:
                        raise Violation("C12", "R-strobe-not-passed-through", t, "")
                elif act == "W":
                    g = p.get(a.w_data) & m if w else 0
                    obs += [g, p.get(a.w_stb)]
                    stats.checks += 2
                    if g != wd:
                        raise Violation("C12", "W-data-not-passed-through", t,
                                        f"w_data={g:#x} port.w_data={wd:#x}")
                    if p.get(a.w_stb) != ws:
                        raise Violation("C12", "W-strobe-not-passed-through", t, "")
                elif act in ("RW", "RW1C", "RW1S"):
                    gd = p.get(a.data) & m if w else 0
                    gr = p.get(a.port.r_data) & m if w else 0
                    obs += [gd, gr]
                    stats.checks += 2
                    if gd != stor:
                        raise Violation("C12", f"{act}-storage-wrong", t,
                                        f"data={gd:#x} expected {stor:#x} (width {w})")
                    if gr != gd:
                        raise Violation("C12", "data-output-differs-from-bus-read", t,
                                        f"data={gd:#x} port.r_data={gr:#x}")
                    wmask = wd if ws else 0
                    if act == "RW":
                        nst = wd if ws else stor
                    elif act == "RW1C":
                        nst = (stor & ~wmask) | hwv
                        if wmask & hwv:
                            stats.fault("write_and_hw_same_bit_same_cycle")
                    else:
                        nst = (stor & ~hwv) | wmask
                        if wmask & hwv:
                            stats.fault("write_and_hw_same_bit_same_cycle")
                    nst &= m
                    if w <= 2:
                        stats.state("action(kind,width,storage,w_stb,w_data,hw)",
                                    f"{act},{w},{stor},{ws},{wd},{hwv if act != 'RW' else 0}")
                else:
                    g = p.get(a.port.r_data) & m if w else 0
                    obs.append(g)
                    stats.checks += 1
                    if g != 0:
                        raise Violation("C12", "reserved-field-drives-something", t,
                                        f"port.r_data={g:#x}")
                if ws and prev_ws:
                    stats.fault("back_to_back_writes")
                if ws and prev_wd == wd:
                    stats.fault("strobe_without_data_change")
                if rs and ws:
                    stats.fault("read_and_write_same_cycle")
                if nst != stor or ws:
                    stats.work += 1
                elif act in ("R", "W") or act.startswith("Res"):
                    stats.work += 1
                hist.rec(t, obs)
                stor = nst
                if in_reset:
                    # fault: the field's clock domain is reset at this edge, whatever is being
                    # written or set: storage is back at its initial value
                    stor = stor0
                    stats.fault("domain_reset")
                prev_ws, prev_wd = ws, wd
                await ctx.tick()
            stats.cycles += len(ops)

        hw.run_tb(sim, tb)

    # ------------------------------------------------------------------------------------------
    def simplify_op(self, op):
        for k in ("rs", "hw", "rst"):
            if op.get(k):
                yield dict(op, **{k: 0})

    def shrink_config(self, config, ops):
        if config["kind"] == "action":
            sh = config["shape"]
            if sh[0] != "u":
                yield dict(config, shape=["u", shape_width(sh)],
                           init=init_value(sh, config.get("init")) or None), ops
            if sh[0] == "u" and sh[1] > 1:
                yield dict(config, shape=["u", sh[1] - 1], init=None), ops
            if config.get("init") is not None:
                yield dict(config, init=None), ops
        else:
            if config.get("annot_sub"):
                yield dict(config, annot_sub=0), ops
            if config.get("annot"):
                yield dict(config, annot=0, annot_sub=0, annot_base=0), ops

    def sample(self, config, ops):
        return {"config": config, "first_ops": ops[:4], "n_ops": len(ops)}


WORLD = FieldsWorld()
