"""World `gpio` — C16: gpio.Peripheral pins follow their mode table, inputs are delayed exactly,
pins are independent.

System: the real gpio.Peripheral (csr.Builder -> csr.Bridge -> csr.Multiplexer -> registers ->
field actions -> pin logic). CSR initiator agent (open loop, transaction-shaped ops with aborts and
gaps) + pin waveform agent (every pin arbitrary every cycle). Model = ideal register file
(conformance tracker) composed with mode/output storage, a per-pin delay line and the mode table."""
from simkit.core import World, Violation
from simkit.rng import cval
from simkit import hw
from models.regfile import RegFile, RegSpec, expand_csr_ops

NAMES = ["Mode", "Input", "Output", "SetClr"]


class GpioWorld(World):
    name = "gpio"
    properties = ("C16",)
    real_components = ("gpio.Peripheral", "csr.Builder", "csr.Bridge", "csr.Multiplexer",
                       "csr.Register", "csr.action.R/W/RW", "gpio Output field action")
    stub_components = ("CSR initiator (seeded open-loop agent)", "pin input waveforms (seeded)")
    fault_kinds = ("abort", "gap", "abort_multi_chunk_write", "setclr_then_output_back_to_back",
                   "pin_toggles_in_snapshot_cycle", "setclr_code_11", "setclr_code_00",
                   "unmapped_access", "second_instance_in_process", "domain_reset")
    assumptions = (
        "Amaranth's Python RTL simulator executes the elaborated netlist faithfully",
        "a reset of the clock domain returns the component to its initial state (the state the "
        "property calls initial is the state after reset, as for every Amaranth register)",
        "only transaction-shaped CSR accesses are generated; the register-file half of the model "
        "relies on C04/C05 semantics",
        "pin.o is checked only where the property defines it (push-pull: output bit; open-drain: "
        "low while driving)",
    )

    def runs(self, prop, tier):
        return {"quick": 2500, "thorough": 30000}[tier]

    def state_targets(self, prop, states):
        k = "pin(mode,out,setclr_code)"
        return {k: {"reached": len(states.get(k, ())), "feasible": 4 * 2 * 5}}

    def gen_config(self, rng, prop):
        dw = rng.choice([8, 16, 32])
        if rng.chance(0.8):
            pc = rng.range(1, dw + 1 if dw == 8 else 12)
        elif dw == 8 or rng.chance(0.3):
            pc = rng.range(1, 2 * dw + 1)
        else:
            pc = rng.range(1, 20)
        if rng.chance(0.006):
            pc = rng.choice([65, 129, 140, 258])      # very wide ports (few operations)
        def p2(x):
            return 1 << (max(1, x) - 1).bit_length()
        s1, s2 = p2((2 * pc + dw - 1) // dw), p2((pc + dw - 1) // dw)
        end = (s1 + 2 * s2 + s1 - 1) // s1 * s1 + s1
        need = max(1, (end - 1).bit_length())
        return {"dw": dw, "pc": pc, "st": rng.range(0, 3), "aw": need - 1 if (need > 1 and rng.chance(0.04)) else rng.range(need, need + 2),
                "hwseed": rng.bits(32), "p_pin": rng.choice([10, 50, 90]),
                "decoy": int(rng.chance(0.12)), "omit": int(rng.chance(0.3))}

    def gen_ops(self, rng, config, prop):
        dw, aw = config["dw"], config["aw"]
        ops = []
        p_rst = rng.choice([0, 0, 0.25])
        for _ in range(rng.range(15, 45) if config["pc"] < 64 else rng.range(3, 6)):
            k = rng.below(100)
            if k < 10:
                ops.append({"k": "idle", "n": rng.range(1, 2)} if not rng.chance(p_rst)
                           else {"k": "reset"})
            elif k < 14:
                ops.append({"k": "raw", "addr": rng.below(1 << aw), "r": 1, "w": 0, "data": 0,
                            "unmapped_only": 1})
            else:
                reg = rng.below(4)
                if reg == 1:
                    mode = "r"
                elif reg == 3:
                    mode = "w"
                else:
                    mode = rng.choice(["r", "w", "w", "rw"])
                ops.append({"k": "txn", "reg": reg, "mode": mode,
                            "n": None if rng.chance(0.8) else rng.below(12),
                            "gaps": [rng.range(1, 2) if rng.chance(0.15) else 0 for _ in range(8)],
                            "data": [rng.bits(dw) for _ in range(8)]})
        return ops

    def run(self, config, ops, props, stats, hist):
        from amaranth_soc import gpio
        dw, pc, st, aw = config["dw"], config["pc"], config["st"], config["aw"]
        def p2(x):
            return 1 << (max(1, x) - 1).bit_length()
        s1, s2 = p2((2 * pc + dw - 1) // dw), p2((pc + dw - 1) // dw)
        need = max(1, ((s1 + 2 * s2 + s1 - 1) // s1 * s1 + s1 - 1).bit_length())
        ctor = (lambda *a_, **k_: hw.must_accept("C16", f"gpio.Peripheral(pin_count={pc}, addr_width="
                                                 f"{aw}, data_width={dw}, input_stages={st})",
                                                 *a_, **k_)) if aw >= need else hw.construct
        dut = ctor(gpio.Peripheral, **hw.spelled(config.get("omit"), {"input_stages": 2},
                                                 pin_count=pc, addr_width=aw, data_width=dw,
                                                 input_stages=st))
        if config.get("decoy"):
            gpio.Peripheral(pin_count=(pc % 5) + 1, addr_width=aw + 2, data_width=dw,
                            input_stages=(st + 1) % 4)
            stats.fault("second_instance_in_process")
        regs = {}
        for info in dut.bus.memory_map.all_resources():
            regs[str(info.path[-1][-1])] = (info.start, info.end)
        if set(regs) != set(NAMES):
            raise Violation("C16", "memory-map-lacks-registers", 0, f"{sorted(regs)}")
        widths = {"Mode": 2 * pc, "Input": pc, "Output": pc, "SetClr": 2 * pc}
        rd = {"Mode": True, "Input": True, "Output": True, "SetClr": False}
        wr = {"Mode": True, "Input": False, "Output": True, "SetClr": True}
        specs = [RegSpec(i, regs[nm][0], regs[nm][1], widths[nm], rd[nm], wr[nm])
                 for i, nm in enumerate(NAMES)]
        for sp, nm in zip(specs, NAMES):
            if (sp.end - sp.start) * dw < sp.width:
                raise Violation("C16", "register-range-cannot-hold-the-register", 0,
                                f"{nm} is reported at [{sp.start},{sp.end}) for {sp.width} bits")
        rf = RegFile(dw, specs)
        mapped = set()
        for s in specs:
            mapped.update(range(s.start, s.end))
        ops2 = []
        for op in ops:
            if op.get("k") == "raw":
                # only accesses to unmapped addresses keep the composed model exact
                a = int(op.get("addr", 0)) & ((1 << aw) - 1)
                if a in mapped:
                    ops2.append({"k": "idle", "n": 1})
                else:
                    ops2.append(dict(op, r=1, w=0))
            else:
                ops2.append(op)
        cycles = expand_csr_ops(ops2, [(s.start, s.end) for s in specs], aw, dw, lambda t, b: 0)
        top, rst = hw.make_top_with_reset(dut)
        sim = hw.build_sim(top)
        hwseed, p_pin = config["hwseed"], config["p_pin"]

        async def tb(ctx):
            p = hw.Pins(ctx)
            mode = [0] * pc
            out = [0] * pc
            line = [[0] * pc for _ in range(st)]      # delay line, oldest first
            prev = None
            prev_addr = prev_rs = 0
            prev_pins = [0] * pc
            last_delivery = None
            flush = 0
            for t, (addr, rs, ws, wd, tag) in enumerate(cycles):
                p.set(dut.bus.addr, addr)
                p.set(dut.bus.r_stb, rs)
                p.set(dut.bus.w_stb, ws)
                p.set(dut.bus.w_data, wd)
                p.set(rst, int(tag == "reset"))
                pins = [int(cval(hwseed, n, t, 7) % 100 < p_pin) for n in range(pc)]
                for n, pin in enumerate(dut.pins):
                    p.set(pin.i, pins[n])
                insync = line[0] if st else pins
                val = {0: sum(mode[n] << (2 * n) for n in range(pc)),
                       1: sum(insync[n] << n for n in range(pc)),
                       2: sum(out[n] << n for n in range(pc))}
                e = rf.step(addr, rs, ws, wd, val)
                if flush:
                    flush -= 1
                    if e.snapshot_taken and e.hit.idx == 1:
                        rf.snap = None
                        e.next_r = ("any", None)
                # ---- outputs of cycle t --------------------------------------------------------
                got_r = p.get(dut.bus.r_data)
                if prev is not None and prev.next_r[0] == "exact":
                    stats.checks += 1
                    if got_r != prev.next_r[1]:
                        which = NAMES[prev.hit.idx] if prev.hit is not None else "unmapped"
                        cls = {"Input": "input-not-delayed-exactly",
                               "Mode": "mode-read-wrong", "Output": "output-read-wrong"}.get(
                            which, "read-data-nonzero")
                        raise Violation("C16", cls, t,
                                        f"r_data={got_r:#x} expected {prev.next_r[1]:#x} ({which} "
                                        f"chunk at address {prev_addr}, input_stages={st})")
                    if prev.hit is not None and prev_rs and prev_addr == prev.hit.end - 1:
                        stats.work += 1
                am = p.get(dut.alt_mode)
                obs = [got_r, am]
                for n, pin in enumerate(dut.pins):
                    oe, o, m = p.get(pin.oe), p.get(pin.o), mode[n]
                    obs += [oe, o]
                    xoe = {0: 0, 1: 1, 2: 1 - out[n], 3: 0}[m]
                    stats.checks += 3
                    if oe != xoe:
                        raise Violation("C16", "output-enable-not-per-mode-table", t,
                                        f"pin {n} mode {m} output bit {out[n]}: oe={oe} expected {xoe}")
                    if m == 1 and o != out[n]:
                        raise Violation("C16", "push-pull-output-wrong", t,
                                        f"pin {n}: o={o} output bit {out[n]}")
                    if m == 2 and oe and o != 0:
                        raise Violation("C16", "open-drain-drives-high", t, f"pin {n}")
                    if ((am >> n) & 1) != int(m == 3):
                        raise Violation("C16", "alt-mode-flag-wrong", t,
                                        f"pin {n} mode {m}: alt_mode bit {(am >> n) & 1}")
                # ---- deliveries (register write strobes firing in this cycle) ----------------
                nmode, nout = list(mode), list(out)
                delivered = {}
                if prev is not None:
                    for i, chunks in prev.next_w.items():
                        v = None if chunks is None else rf.complete_value(specs[i], chunks)
                        if v is None:
                            stats.probe("model_tainted_by_nonconforming_write")
                            return
                        delivered[NAMES[i]] = v
                if "Mode" in delivered:
                    nmode = [(delivered["Mode"] >> (2 * n)) & 3 for n in range(pc)]
                    stats.work += 1
                for n in range(pc):
                    s_ = c_ = 0
                    code = 4
                    if "SetClr" in delivered:
                        w = delivered["SetClr"]
                        s_, c_ = (w >> (2 * n)) & 1, (w >> (2 * n + 1)) & 1
                        code = s_ | (c_ << 1)
                        if code == 3:
                            stats.fault("setclr_code_11")
                        elif code == 0:
                            stats.fault("setclr_code_00")
                    if s_ != c_:
                        nout[n] = s_
                    elif "Output" in delivered:
                        nout[n] = (delivered["Output"] >> n) & 1
                    stats.state("pin(mode,out,setclr_code)", f"{mode[n]},{out[n]},{code}")
                if delivered:
                    stats.work += 1
                    nm = sorted(delivered)[0]
                    if last_delivery is not None and last_delivery[0] != nm and \
                            {last_delivery[0], nm} == {"SetClr", "Output"} and \
                            t - last_delivery[1] <= specs[2].end - specs[2].start + 1:
                        stats.fault("setclr_then_output_back_to_back")
                    last_delivery = (nm, t)
                if tag == "gap":
                    stats.fault("gap")
                if (rs or ws) and e.hit is None:
                    stats.fault("unmapped_access")
                if tag == "txn-abort" and (t + 1 == len(cycles) or cycles[t + 1][4] != "txn-abort"):
                    stats.fault("abort")
                    if ws and e.hit is not None and e.hit.end - e.hit.start > 1:
                        stats.fault("abort_multi_chunk_write")
                if e.snapshot_taken and e.hit.idx == 1 and pins != prev_pins:
                    stats.fault("pin_toggles_in_snapshot_cycle")
                hist.rec(t, obs)
                mode, out = nmode, nout
                if st:
                    line = line[1:] + [pins]
                prev, prev_addr, prev_rs, prev_pins = e, addr, rs, pins
                if tag == "reset":
                    # fault: the peripheral's clock domain is reset in this (idle) cycle, possibly
                    # between the chunks of a register transaction: every pin is an input again
                    # and the output bits are clear
                    mode, out = [0] * pc, [0] * pc
                    # (the synchroniser stages may or may not take part in the reset: what Input
                    # returns is left unchecked until they have been flushed)
                    flush = st + 1
                    rf._break()
                    stats.fault("domain_reset")
                await ctx.tick()
            stats.cycles += len(cycles)

        hw.run_tb(sim, tb)

    def simplify_op(self, op):
        if op.get("k") == "txn":
            if any(op.get("gaps") or []):
                yield dict(op, gaps=[])
            if op.get("mode") == "rw":
                yield dict(op, mode="r")
                yield dict(op, mode="w")

    def shrink_config(self, config, ops):
        if config["pc"] > 1:
            yield dict(config, pc=config["pc"] - 1), ops
            yield dict(config, pc=max(1, config["pc"] // 2)), ops
        if config["st"]:
            yield dict(config, st=config["st"] - 1), ops

    def sample(self, config, ops):
        return {"config": config, "first_ops": ops[:6], "n_ops": len(ops)}


WORLD = GpioWorld()
