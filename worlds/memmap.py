"""World `memmap` — C02 (allocation), C03 (lookup coherence through windows), C18 (names).

No clock: a call history on a pool of single-threaded MemoryMap objects. The family applies in
its sequential form: seeded operation sequences with *failing* calls interleaved as the fault
kind, checked call by call against independent reference models (allocator, namespace, recursive
address translation) and by cross-invariants after every step."""
from simkit.core import World, Violation, Refused, HarnessError

NAME_PARTS = ["a", "b", "0", 0, 1]
LONG_PARTS = ["ab", "reg", "a0", 300, 1000]      # equal values arrive as distinct objects
ODD_PARTS = ["a/b", "a", "b/", "[0]", 0, "0", "a.b", "a__b", "__"]   # any non-empty string is legal


def fresh(part):
    """A new object equal to `part` (names are computed at run time in real designs: f-strings,
    arithmetic; only short literals and small ints are shared objects in CPython)."""
    if isinstance(part, str) and len(part) >= 2:
        return "".join(list(part))
    if isinstance(part, int) and not isinstance(part, bool) and part > 256:
        return int(str(part))
    return part



def align_up(v, a):
    m = 1 << a
    return (v + m - 1) // m * m


def conflict(n, names):
    for m in names:
        k = min(len(n), len(m))
        if tuple(n[:k]) == tuple(m[:k]):
            return True
    return False


class MMap:
    """Reference model of one map."""
    def __init__(self, aw, dw, al):
        self.aw, self.dw, self.al = aw, dw, al
        self.items = []      # dicts: kind, start, end, ratio, obj (index) / win (map index), name
        self.cursor = 0
        self.frozen = False
        self.names = []      # visible names (tuples), insertion order
        self.parent = None

    def free(self, s, e):
        return all(it["end"] <= s or it["start"] >= e for it in self.items)

    def has_windows(self):
        return any(it["kind"] == "win" for it in self.items)


def valid_name(n):
    if isinstance(n, str):
        return bool(n)
    if not isinstance(n, (list, tuple)) or len(n) == 0:
        return False
    for p in n:
        if isinstance(p, bool):
            return None  # bool is an int subclass: outcome unspecified, do not judge
        if isinstance(p, str) and p:
            continue
        if isinstance(p, int) and p >= 0:
            continue
        return False
    return True


class MemMapWorld(World):
    name = "memmap"
    clocked = False
    properties = ("C02", "C03", "C18")
    real_components = ("memory.MemoryMap (allocator, range map, namespace, translation)",
                       "csr.Bridge constructor (freeze-by-use)")
    stub_components = ("resources are inert wiring.Component / csr.Register objects",)
    fault_kinds = ("abandoned_query", "equal_but_distinct_object", "rejected_call", "invalid_argument", "overlap_explicit", "out_of_bounds",
                   "duplicate_object", "name_conflict", "add_after_freeze", "bad_window",
                   "explicit_address_aimed_at_an_existing_item")
    assumptions = (
        "no clock and no concurrency exist for these properties: 'simulation' is sequential "
        "model-based conformance over seeded call histories with rejected calls as faults",
        "trees only: a map is used as a window at most once and never of itself",
        "dense windows of ratio > 1 are placed over leaf maps only (the property's domain); for "
        "them the numeric alignment rule is not asserted",
    )

    def runs(self, prop, tier):
        return {"quick": 20000, "thorough": 300000}[tier]

    def rule(self, prop):
        return ("cases = seeded call histories (20-45 calls on a pool of 2-6 maps); non-trivial = "
                "at least one accepted add and at least one rejected (fault) call in the history; "
                "distinct = distinct (config, ops, observed-history) digests")

    # ------------------------------------------------------------------------------------------
    def gen_config(self, rng, prop):
        n = rng.range(2, 6)
        roomy = prop == "C18"
        maps = []
        huge = rng.chance(0.06)
        for i in range(n):
            if huge and (i == 0 or rng.chance(0.5)):
                maps.append({"aw": rng.choice([40, 54, 56, 60, 64]), "dw": rng.choice([8, 8, 32]),
                             "al": rng.choice([0, 0, 4, 8]), "regs": False, "huge": 1})
                continue
            maps.append({"aw": rng.range(6, 10) if roomy else rng.range(1, 8),
                         "dw": rng.choice([8, 8, 8, 8, 8, 16, 32]),
                         "al": rng.choice([0, 0, 1, 2, 3]) if not roomy else rng.choice([0, 0, 1]),
                         "regs": rng.chance(0.2)})
        return {"maps": maps}

    def _name(self, rng, prop=None):
        pool = NAME_PARTS if not rng.chance(0.2) else LONG_PARTS
        if rng.chance(0.06):
            pool = ODD_PARTS
        if rng.chance(0.001):
            # a very deep hierarchy (see gen_ops for the deliberate pairs)
            return ["lvl"] * rng.choice([990, 1000, 1010]) + [rng.choice(["a", "b", 0])]
        n = [rng.choice(pool) for _ in range(rng.range(1, 3))]
        if rng.chance(0.55 if prop == "C18" else 0.35) and pool is NAME_PARTS:
            n[0] = rng.choice([0, "0"])       # roots that tie under str()
        return n

    def gen_ops(self, rng, config, prop):
        ops = self._gen_ops(rng, config, prop)
        if rng.chance(0.004):
            # two names that share a thousand leading parts and differ only at the very end (a
            # deep, regular hierarchy), in the same map
            m = rng.below(len(config["maps"]))
            at = rng.below(len(ops) + 1)
            depth = rng.choice([1000, 1990, 2005])     # (the check runs with a recursion limit of 2000)
            for tail in (["a"], ["b", 0]):
                ops.insert(at, {"k": "res", "m": m, "size": 1, "addr": None, "align": None,
                                "name": ["lvl"] * depth + tail, "obj": -1})
        return ops

    def _gen_ops(self, rng, config, prop):
        ops = []
        nm = len(config["maps"])
        for step in range(rng.range(20, 45)):
            k = rng.below(100)
            m = rng.below(nm)
            aw = config["maps"][m]["aw"]
            if k < 50:
                if config["maps"][m].get("huge"):
                    top = 1 << aw
                    size = rng.choice([1, 3, (1 << (aw - 4)) + 1, (1 << (aw - 1)) - 255, 255,
                                       (1 << 53) + 1, rng.bits(aw - 2) | 1])
                    addr = None if rng.chance(0.6) else rng.choice(
                        [top - 256, top - 255, (1 << (aw - 1)) + 1, rng.bits(aw), (1 << 53) + 2])
                else:
                    size = rng.choice([0, 1, 1, 2, 3, 4, 5, 8])
                    addr = None if rng.chance(0.6) else rng.range(-1, (1 << aw) + 1)
                op = {"k": "res", "m": m, "size": size, "addr": addr,
                      "align": None if rng.chance(0.6) else rng.range(0, 3),
                      "name": self._name(rng, prop), "obj": -1}
                if rng.chance(0.08) and not config["maps"][m].get("huge"):
                    op["addr_rel"] = [rng.below(8), rng.choice([1, 1, 2, 3, -1, -1, -2, -3])]
                    op["size"] = rng.choice([1, 2, 3, 4])
                if rng.chance(0.08):
                    op["twin"] = rng.below(8)         # a distinct object that compares equal
                if rng.chance(0.2):
                    op["name_as"] = "Name"
                if rng.chance(0.06):
                    op["obj"] = rng.below(8)          # duplicate-object fault
                if rng.chance(0.05):
                    op["bad"] = rng.choice(["size_neg", "size_str", "addr_str", "align_neg",
                                            "name_empty", "name_badpart", "not_component",
                                            "name_neg"])
                ops.append(op)
            elif k < 62:
                ops.append({"k": "align", "m": m, "a": rng.range(0, 4) if rng.chance(0.9) else -1})
            elif k < 64:
                ops.append({"k": "freeze", "m": m})
            elif k < 66:
                # the map is handed to a register bridge (accepted only if it holds nothing but
                # registers, e.g. nothing at all): frozen by use
                ops.append({"k": "bridge", "m": m})
            elif k < 71:
                ops.append({"k": "peek", "m": m, "n": rng.range(0, 3),
                            "what": rng.choice(["all", "all", "res", "win", "find", "decode", "pat"])})
            else:
                w = rng.below(nm)
                op = {"k": "win", "m": m, "w": w,
                      "name": None if rng.chance(0.55 if prop == "C18" else 0.35) else self._name(rng, prop),
                      "addr": None if rng.chance(0.6) else rng.range(0, 1 << aw),
                      "sparse": rng.choice([None, None, False, True])}
                if rng.chance(0.04):
                    op["bad"] = rng.choice(["not_map", "name_badpart"])
                ops.append(op)
        return ops

    # ------------------------------------------------------------------------------------------
    def run(self, config, ops, props, stats, hist):
        from amaranth.lib import wiring
        from amaranth.lib.wiring import Out
        from amaranth_soc.memory import MemoryMap
        from amaranth_soc import csr

        class C(wiring.Component):
            def __init__(self):
                super().__init__({"x": Out(1)})

        class VC(C):
            """A resource type with value-like equality: two distinct objects can be equal."""
            def __init__(self, tag):
                super().__init__()
                self.tag = tag

            def __eq__(self, other):
                return isinstance(other, VC) and self.tag == other.tag

            def __hash__(self):
                return hash(("VC", self.tag))

        maps_cfg = config["maps"]
        if not maps_cfg:
            return
        real = []
        model = []
        for mc in maps_cfg:
            try:
                real.append(MemoryMap(addr_width=mc["aw"], data_width=mc["dw"],
                                      alignment=mc["al"]))
            except (ValueError, TypeError) as e:
                raise Refused(str(e))
            model.append(MMap(mc["aw"], mc["dw"], mc["al"]))
        name_cache = {}
        objs = []           # (object, map index or None)
        never_added = [C(), C(), VC(0), VC(1), VC(2)]
        c02 = "C02" in props
        c03 = "C03" in props
        c18 = "C18" in props

        def V(prop, cls, step, detail):
            return Violation(prop, cls, step, detail)

        def snapshot(i):
            mm = real[i]
            return ([(id(r), tuple(n), rg) for r, n, rg in mm.resources()],
                    [(id(w), None if n is None else tuple(n), rg) for w, n, rg in mm.windows()])

        def model_report(i):
            res = [(id(objs[it["obj"]][0]), tuple(it["name"]), (it["start"], it["end"]))
                   for it in sorted(model[i].items, key=lambda it: it["start"])
                   if it["kind"] == "res"]
            win = [(id(real[it["win"]]), None if it["name"] is None else tuple(it["name"]),
                    (it["start"], it["end"], it["ratio"]))
                   for it in sorted(model[i].items, key=lambda it: it["start"])
                   if it["kind"] == "win"]
            return res, win

        def expected_all(i):
            """Independent recursive translation: list of (obj id, path, start, end, width)."""
            out = []
            mdl = model[i]
            for it in sorted(mdl.items, key=lambda it: it["start"]):
                if it["kind"] == "res":
                    out.append((id(objs[it["obj"]][0]), (tuple(it["name"]),), it["start"],
                                it["end"], mdl.dw))
                else:
                    r = it["ratio"]
                    for (oid, path, s, e, w) in expected_all(it["win"]):
                        if s % r or e % r:
                            # the allocator handed out a range inside a dense window's map that
                            # is not a multiple of the ratio: C02's business (size rounding); the
                            # translation C03 speaks of is undefined for it
                            raise Refused("a range behind a dense window is not a multiple of "
                                          "the ratio (allocation is C02's business)")
                        p = path if it["name"] is None else (tuple(it["name"]),) + path
                        out.append((oid, p, it["start"] + s // r, it["start"] + e // r, w * r))
            return out

        def check_c03(step):
            for i in range(len(real)):
                if model[i].parent is not None:
                    continue
                # the real query first: an exception inside it on a tree the API accepted is a
                # lookup failure in its own right (reported as an internal error by the runner)
                got = [(id(x.resource), tuple(tuple(n) for n in x.path), x.start, x.end, x.width)
                       for x in real[i].all_resources()]
                exp = expected_all(i)
                stats.checks += 1
                if got != exp:
                    raise V("C03", "all_resources-mismatch", step,
                            f"map {i}: all_resources() = {[g[1:] for g in got]} but address "
                            f"arithmetic gives {[e[1:] for e in exp]}")
                by_id = {e[0]: e for e in exp}
                for o, _ in objs:
                    stats.checks += 1
                    try:
                        x = real[i].find_resource(o)
                        g = (id(x.resource), tuple(tuple(n) for n in x.path), x.start, x.end,
                             x.width)
                    except KeyError:
                        g = None
                    if g != by_id.get(id(o)):
                        raise V("C03", "find_resource-mismatch", step,
                                f"map {i}: find_resource gives {g and g[1:]} expected "
                                f"{by_id.get(id(o)) and by_id[id(o)][1:]}")
                for o in never_added:
                    try:
                        real[i].find_resource(o)
                        raise V("C03", "find_resource-found-never-added", step, f"map {i}")
                    except KeyError:
                        pass
                if model[i].aw <= 10:
                    owner = {}
                    for e in exp:
                        for a in range(e[2], e[3]):
                            if a in owner:
                                raise V("C03", "reported-ranges-overlap", step, f"map {i} addr {a}")
                            owner[a] = e[0]
                    probe = range(1 << model[i].aw)
                    lookup = owner.get
                else:
                    # huge maps: every range boundary and its neighbours instead of every address
                    srt = sorted(exp, key=lambda e: e[2])
                    for e1, e2 in zip(srt, srt[1:]):
                        if e1[3] > e2[2]:
                            raise V("C03", "reported-ranges-overlap", step, f"map {i}")
                    top = 1 << model[i].aw
                    probe = sorted({a for e in exp for a in (e[2] - 1, e[2], e[2] + 1, e[3] - 2,
                                                             e[3] - 1, e[3], (e[2] + e[3]) // 2)
                                    if 0 <= a < top} | {0, top - 1})

                    def lookup(a):
                        for e in exp:
                            if e[2] <= a < e[3]:
                                return e[0]
                        return None
                for a in probe:
                    d = real[i].decode_address(a)
                    stats.checks += 1
                    if (None if d is None else id(d)) != lookup(a):
                        raise V("C03", "decode_address-mismatch", step,
                                f"map {i}: decode_address({a}) disagrees with reported ranges")
                if any(it["kind"] == "win" and it["ratio"] > 1 for it in model[i].items):
                    stats.probe("root_with_dense_window")
                if any(it["kind"] == "win" and model[it["win"]].has_windows()
                       for it in model[i].items):
                    stats.probe("depth_3_tree")

        def check_report(i, step):
            if not c02:
                return
            stats.checks += 1
            if snapshot(i) != model_report(i):
                raise V("C02", "report-mismatch", step,
                        f"map {i}: resources()/windows() = {snapshot(i)} but handed out "
                        f"{model_report(i)}")

        def check_paths(step):
            if not c18:
                return
            for i in range(len(real)):
                paths = [tuple(tuple(n) for n in x.path) for x in real[i].all_resources()]
                stats.checks += 1
                if len(set(paths)) != len(paths):
                    raise V("C18", "duplicate-path", step, f"map {i}: {paths}")

        for step, op in enumerate(ops):
            k = op.get("k")
            m = int(op.get("m", 0)) % len(real)
            mm, mdl = real[m], model[m]
            before = [snapshot(i) for i in range(len(real))]
            stats.steps += 1
            if k == "align":
                a = op.get("a", 0)
                try:
                    r = mm.align_to(a)
                    ok = True
                except ValueError:
                    ok = False
                legal = isinstance(a, int) and a >= 0
                if c02:
                    if ok != legal:
                        raise V("C02", "align_to-accept-mismatch", step, f"align_to({a!r})")
                    if ok:
                        exp = align_up(mdl.cursor, max(a, mdl.al))
                        if r != exp:
                            raise V("C02", "align_to-wrong-cursor", step,
                                    f"align_to({a}) returned {r}, expected {exp}")
                if ok:
                    mdl.cursor = r if not c02 else align_up(mdl.cursor, max(a, mdl.al))
                else:
                    stats.fault("rejected_call")
                    stats.fault("invalid_argument")
                hist.rec(step, "align", ok, r if ok else None)
                continue
            if k == "freeze":
                mm.freeze()
                mdl.frozen = True
                hist.rec(step, "freeze")
                continue
            if k == "peek":
                # a caller starts a query and abandons it part-way (early exit from a lookup
                # loop), or queries before the tree is complete: queries must stay pure
                n = int(op.get("n", 0))
                what = op.get("what", "all")
                stats.fault("abandoned_query")
                if what in ("all", "res", "win", "pat"):
                    it = {"all": mm.all_resources, "res": mm.resources, "win": mm.windows,
                          "pat": mm.window_patterns}[what]()
                    for _ in range(n):
                        if next(it, None) is None:
                            break
                    del it
                elif what == "find":
                    for o, _ in objs[:n + 1] + [(never_added[0], None)]:
                        try:
                            mm.find_resource(o)
                        except KeyError:
                            pass
                else:
                    for a in range(0, 1 << mdl.aw, max(1, (1 << mdl.aw) // (n + 2))):
                        mm.decode_address(a)
                check_report(m, step)
                if c03:
                    check_c03(step)
                hist.rec(step, "peek", what, n)
                continue
            if k == "bridge":
                try:
                    csr.Bridge(mm)
                    ok = True
                except (TypeError, ValueError):
                    ok = False
                if ok:
                    mdl.frozen = True
                    stats.probe("frozen_by_bridge")
                else:
                    stats.fault("rejected_call")
                hist.rec(step, "bridge", ok)
                if not ok and c02 and [snapshot(i) for i in range(len(real))] != before:
                    raise V("C02", "raising-call-changed-state", step, "csr.Bridge(map) raised")
                continue
            if k == "res":
                bad = op.get("bad")
                if op.get("addr_rel") is not None and mdl.items:
                    # an explicit address aimed at an item that is already there: just inside its
                    # start, or so that the request straddles its end
                    it_ = sorted(mdl.items, key=lambda x_: x_["start"])[int(op["addr_rel"][0]) % len(mdl.items)]
                    o_ = int(op["addr_rel"][1])
                    op = dict(op, addr=(it_["start"] + o_) if o_ >= 0 else max(0, it_["end"] + o_))
                    stats.fault("explicit_address_aimed_at_an_existing_item")
                size, addr, pal, name = op.get("size", 1), op.get("addr"), op.get("align"), \
                    op.get("name", ["a"])
                oi = op.get("obj", -1)
                dup = False
                if isinstance(oi, int) and 0 <= oi < len(objs) and objs[oi][1] in (None, m):
                    obj = objs[oi][0]
                    dup = objs[oi][1] == m
                    new_index = oi
                    reuse = True
                else:
                    if op.get("twin") is not None and not maps_cfg[m].get("regs"):
                        obj = VC(int(op["twin"]) % 3)      # equal to other VC(tag) objects, not identical
                        stats.fault("equal_but_distinct_object")
                    else:
                        obj = csr.Register(csr.Field(csr.action.R, 1), access="r") \
                            if maps_cfg[m].get("regs") else C()
                    reuse = False
                    new_index = len(objs)
                if bad == "size_neg":
                    size = -1
                elif bad == "size_str":
                    size = "4"
                elif bad == "addr_str":
                    addr = "0"
                elif bad == "align_neg":
                    pal = -1
                elif bad == "name_empty":
                    name = []
                elif bad == "name_badpart":
                    name = ["a", ""]
                elif bad == "name_neg":
                    name = ["a", -1]
                elif bad == "not_component":
                    obj = object()
                name_t = tuple(fresh(x) for x in name) if isinstance(name, list) else name
                name_arg = name_t
                if op.get("name_as") == "Name" and valid_name(name) is True:
                    # the caller keeps MemoryMap.Name constants and re-uses the same instance
                    name_arg = name_cache.setdefault(name_t, MemoryMap.Name(name_t))
                try:
                    s, e = mm.add_resource(obj, name=name_arg, size=size, addr=addr, alignment=pal)
                    ok = True
                    exc = None
                except Exception as ex:  # any exception is a refusal; its type is not judged here
                    ok = False
                    exc = ex
                args_valid = (bad is None and isinstance(size, int) and size >= 0 and
                              (addr is None or (isinstance(addr, int) and addr >= 0)) and
                              (pal is None or (isinstance(pal, int) and pal >= 0)) and
                              valid_name(name) is True)
                name_ok = args_valid and not conflict(name_t, mdl.names)
                shared = False   # one object in two maps is never generated (trees of distinct resources)
                if args_valid:
                    ea = max(pal or 0, mdl.al)
                    sz = align_up(max(size, 1), ea)
                    if addr is None:
                        st = align_up(mdl.cursor, ea)
                    else:
                        st = addr
                    fits = st + sz <= (1 << mdl.aw) and mdl.free(st, st + sz)
                else:
                    ea = sz = st = None
                    fits = False
                must_reject = (not args_valid) or mdl.frozen or dup
                if c02:
                    if ok and must_reject:
                        cls = "add-after-freeze-accepted" if mdl.frozen and args_valid and not dup \
                            else "invalid-call-accepted"
                        raise V("C02", cls, step, f"add_resource({op}) returned {(s, e)}")
                    if ok:
                        if addr is not None and s != addr:
                            raise V("C02", "explicit-address-not-honoured", step,
                                    f"asked {addr}, got {s}")
                        if s < 0 or e > (1 << mdl.aw) or not mdl.free(s, e):
                            raise V("C02", "range-overlaps-or-out-of-bounds", step,
                                    f"handed out [{s},{e}) with items "
                                    f"{[(i['start'], i['end']) for i in mdl.items]}")
                        if e - s < sz:
                            raise V("C02", "size-not-rounded-request", step,
                                    f"[{s},{e}) for size {size} effective alignment {ea}")
                        if s % (1 << ea) and addr is None:
                            raise V("C02", "implicit-misaligned", step, f"start {s} align {ea}")
                    if addr is None and args_valid and not shared:
                        legal = (not must_reject) and fits
                        if name_ok:     # name conflicts are C18's business
                            if ok != legal:
                                raise V("C02", "implicit-placement-accept-mismatch", step,
                                        f"add_resource(size={size}, alignment={pal}) "
                                        f"{'accepted' if ok else 'refused'}; cursor={mdl.cursor} "
                                        f"expected start {st} size {sz} in 2^{mdl.aw}")
                        if ok and s != st:
                            raise V("C02", "implicit-placement-wrong-address", step,
                                    f"placed at [{s},{e}), first aligned address at/after cursor "
                                    f"{mdl.cursor} is {st}")
                if c18 and args_valid and not shared:
                    if ok and conflict(name_t, mdl.names):
                        raise V("C18", "conflicting-name-accepted", step,
                                f"{name_t} accepted although visible names are {mdl.names}")
                    if (not ok) and name_ok and addr is None and fits and not must_reject:
                        raise V("C18", "legal-name-refused", step,
                                f"{name_t} refused; visible names {mdl.names}")
                if ok:
                    if reuse:
                        objs[oi] = (obj, m)
                    else:
                        objs.append((obj, m))
                    mdl.items.append({"kind": "res", "start": s, "end": e, "ratio": 1,
                                      "obj": new_index, "name": list(name_t)})
                    mdl.names.append(tuple(name_t))
                    mdl.cursor = e
                    stats.work += 1
                else:
                    if not reuse and isinstance(obj, wiring.Component):
                        objs.append((obj, None))
                    stats.fault("rejected_call")
                    if not args_valid:
                        stats.fault("invalid_argument")
                    elif mdl.frozen:
                        stats.fault("add_after_freeze")
                    elif dup:
                        stats.fault("duplicate_object")
                    elif not name_ok:
                        stats.fault("name_conflict")
                    elif addr is not None and st + sz > (1 << mdl.aw):
                        stats.fault("out_of_bounds")
                    elif addr is not None and not mdl.free(st, st + sz):
                        stats.fault("overlap_explicit")
                hist.rec(step, "res", ok, (s, e) if ok else type(exc).__name__)
            elif k == "win":
                w = int(op.get("w", 0)) % len(real)
                bad = op.get("bad")
                name = op.get("name")
                addr = op.get("addr")
                sparse = op.get("sparse")
                wm, wmdl = real[w], model[w]
                # domain: trees only
                if w == m or wmdl.parent is not None:
                    hist.rec(step, "win-skipped")
                    continue
                warg = wm
                if bad == "not_map":
                    warg = "nope"
                elif bad == "name_badpart":
                    name = ["a", ""]
                name_t = None if name is None else tuple(fresh(x) for x in name)
                # width rules
                width_ok = True
                exp_ratio = 1
                if wmdl.dw > mdl.dw:
                    width_ok = False
                elif wmdl.dw != mdl.dw:
                    if sparse is None:
                        width_ok = False
                    elif not sparse:
                        if mdl.dw % wmdl.dw:
                            width_ok = False
                        else:
                            exp_ratio = mdl.dw // wmdl.dw
                            if exp_ratio & (exp_ratio - 1) or exp_ratio > (1 << wmdl.al):
                                width_ok = False
                if exp_ratio > 1 and width_ok and wmdl.has_windows():
                    # dense (ratio > 1) over a non-leaf map: outside the stated domain
                    hist.rec(step, "win-skipped-dense-nonleaf")
                    continue
                try:
                    s, e, ratio = mm.add_window(warg, name=name_t, addr=addr, sparse=sparse)
                    ok = True
                    exc = None
                except Exception as ex:  # any exception is a refusal; its type is not judged here
                    ok = False
                    exc = ex
                args_valid = bad is None and (name is None or valid_name(name) is True) and \
                    (addr is None or (isinstance(addr, int) and addr >= 0))
                if name_t is None:
                    names_q = list(wmdl.names)
                else:
                    names_q = [name_t]
                name_ok = args_valid and not any(conflict(n, mdl.names) for n in names_q)
                # anonymous windows whose own names conflict with each other cannot exist
                must_reject = (not args_valid) or (not width_ok) or mdl.frozen
                if width_ok and args_valid:
                    if exp_ratio == 1:
                        ea = max(mdl.al, wmdl.aw)
                        sz = align_up(1 << wmdl.aw, ea)
                        st = align_up(mdl.cursor, ea) if addr is None else addr
                        fits = st + sz <= (1 << mdl.aw) and mdl.free(st, st + sz)
                    else:
                        ea = st = None
                        sz = (1 << wmdl.aw) // exp_ratio
                        fits = None
                else:
                    ea = sz = st = None
                    fits = False
                if c02:
                    if ok and must_reject:
                        cls = "add-after-freeze-accepted" if mdl.frozen and args_valid and width_ok \
                            else "invalid-call-accepted"
                        raise V("C02", cls, step, f"add_window({op}) returned {(s, e, ratio)}")
                    if ok:
                        if addr is not None and s != addr:
                            raise V("C02", "explicit-address-not-honoured", step,
                                    f"asked {addr}, got {s}")
                        if s < 0 or e > (1 << mdl.aw) or not mdl.free(s, e):
                            raise V("C02", "range-overlaps-or-out-of-bounds", step,
                                    f"window handed [{s},{e})")
                        if ratio != exp_ratio:
                            raise V("C02", "window-ratio-wrong", step, f"{ratio} != {exp_ratio}")
                        if e - s < sz:
                            raise V("C02", "size-not-rounded-request", step,
                                    f"window [{s},{e}) smaller than span {sz}")
                    if exp_ratio == 1 and addr is None and args_valid and width_ok:
                        legal = (not must_reject) and fits
                        if name_ok and ok != legal:
                            raise V("C02", "implicit-placement-accept-mismatch", step,
                                    f"add_window(aw={wmdl.aw}) {'accepted' if ok else 'refused'}; "
                                    f"cursor={mdl.cursor} expected [{st},{st + sz})")
                        if ok and s != st:
                            raise V("C02", "implicit-placement-wrong-address", step,
                                    f"window at [{s},{e}) expected start {st}")
                if c18 and args_valid and width_ok:
                    if ok and any(conflict(n, mdl.names) for n in names_q):
                        raise V("C18", "conflicting-name-accepted", step,
                                f"window name(s) {names_q} accepted; visible {mdl.names}")
                    if (not ok) and name_ok and exp_ratio == 1 and addr is None and fits \
                            and not must_reject:
                        raise V("C18", "legal-name-refused", step,
                                f"window name(s) {names_q} refused; visible {mdl.names}")
                if ok:
                    mdl.items.append({"kind": "win", "start": s, "end": e, "ratio": ratio,
                                      "win": w, "name": None if name_t is None else list(name_t)})
                    if name_t is None:
                        mdl.names.extend(wmdl.names)
                        stats.probe("anonymous_window_absorbed_names", len(wmdl.names))
                    else:
                        mdl.names.append(name_t)
                    mdl.cursor = e
                    wmdl.frozen = True
                    wmdl.parent = m
                    stats.work += 1
                    if ratio > 1:
                        stats.probe("dense_window_ratio_gt1")
                    if sparse and wmdl.dw != mdl.dw:
                        stats.probe("sparse_window")
                else:
                    stats.fault("rejected_call")
                    if not args_valid or not width_ok:
                        stats.fault("bad_window")
                    elif mdl.frozen:
                        stats.fault("add_after_freeze")
                    elif not name_ok:
                        stats.fault("name_conflict")
                hist.rec(step, "win", ok, (s, e, ratio) if ok else type(exc).__name__)
            else:
                continue
            # ---- after every add: failure atomicity, reports, cross-invariants ---------------
            after = [snapshot(i) for i in range(len(real))]
            if not ok:
                if c02 or c18:
                    stats.checks += 1
                    if after != before:
                        raise V("C02" if c02 else "C18", "raising-call-changed-state", step,
                                f"{op} raised {type(exc).__name__} but resources()/windows() changed")
                if c02:
                    # non-perturbing probe of the placement cursor (align_to(0) cannot change any
                    # future placement: every placement aligns to >= the map alignment anyway)
                    for i in range(len(real)):
                        cur = real[i].align_to(0)
                        stats.checks += 1
                        if cur != align_up(model[i].cursor, model[i].al):
                            raise V("C02", "raising-call-moved-cursor", step,
                                    f"map {i}: next implicit address {cur}, expected "
                                    f"{align_up(model[i].cursor, model[i].al)}")
            check_report(m, step)
            if c18:
                check_paths(step)
            if c03:
                check_c03(step)
            st_key = (len(mdl.items), mdl.frozen, ok)
            stats.state("map(items,frozen,last_ok)", st_key)

    # ------------------------------------------------------------------------------------------
    def normalise(self, config, ops):
        return config, ops

    def simplify_op(self, op):
        if op.get("bad"):
            return
        if op.get("k") == "res":
            if op.get("align") is not None:
                yield dict(op, align=None)
            if op.get("addr") is not None:
                yield dict(op, addr=None)
            if op.get("size", 1) > 1:
                yield dict(op, size=1)
            if len(op.get("name", [])) > 1:
                yield dict(op, name=op["name"][:1])
        elif op.get("k") == "win":
            if op.get("addr") is not None:
                yield dict(op, addr=None)
            if op.get("name") is not None and len(op["name"]) > 1:
                yield dict(op, name=op["name"][:1])

    def shrink_config(self, config, ops):
        maps = config["maps"]
        for j, mc in enumerate(maps):
            if mc["al"]:
                yield dict(config, maps=maps[:j] + [dict(mc, al=0)] + maps[j + 1:]), ops
            if mc["aw"] > 1:
                yield dict(config, maps=maps[:j] + [dict(mc, aw=mc["aw"] - 1)] + maps[j + 1:]), ops
            if mc["dw"] != 8:
                yield dict(config, maps=maps[:j] + [dict(mc, dw=8)] + maps[j + 1:]), ops

    def sample(self, config, ops):
        return {"config": config, "first_ops": ops[:10], "n_ops": len(ops)}


WORLD = MemMapWorld()
