"""World `mux` — C04 (read atomicity / strobe exactness) and C05 (write atomicity, exactness,
shadow-sharing-limit invariance) of csr.Multiplexer.

System: the real csr.Multiplexer over mock registers whose back-end is an agent that changes
every readable register's value every cycle. Initiator: open-loop CSR agent interpreting a
materialised op list (transactions with aborts and gaps, raw byzantine cycles, idle)."""
from simkit.core import World, Violation, Refused
from simkit.rng import cval
from simkit import hw
from models.regfile import RegFile, RegSpec, expand_csr_ops


def build_map(config, after=None):
    """Returns (memory_map, placed, skipped) where placed = [(MockReg, start, end, width, access)].
    `after(memory_map)` is called once the first len(regs) - config["late"] registers are in the
    map: a multiplexer may be constructed on a map that is still being filled."""
    from amaranth_soc.memory import MemoryMap
    mm = hw.construct(MemoryMap, **hw.spelled(config.get("omit"), {"alignment": 0},
                                              addr_width=config["aw"], data_width=config["dw"],
                                              alignment=config["al"]))
    placed = []
    skipped = 0
    cut = len(config["regs"]) - int(config.get("late") or 0)
    for i, r in enumerate(config["regs"]):
        if i == cut and after is not None:
            after(mm)
            after = None
        reg = hw.mock_reg(r["w"], r["acc"], config.get("reg_kind"))
        kw = {}
        if r.get("align") is not None:
            kw["alignment"] = r["align"]
        if r.get("addr") is not None:
            kw["addr"] = r["addr"]
        try:
            s, e = mm.add_resource(reg, name=(f"r{i}",), size=r["size"], **kw)
        except ValueError:
            skipped += 1
            continue
        placed.append((reg, s, e, r["w"], r["acc"]))
    if after is not None:
        after(mm)
    return mm, placed, skipped


class MuxWorld(World):
    name = "mux"
    properties = ("C04", "C05")
    real_components = ("csr.Multiplexer (incl. its shadow registers)", "memory.MemoryMap")
    stub_components = ("register back-ends (bare csr.Element ports driven by a seeded agent)",
                       "CSR initiator (seeded open-loop agent)")
    fault_kinds = ("abort", "gap", "rw_same_cycle", "unmapped_access", "byzantine_raw",
                   "nonconforming_access", "registers_added_after_multiplexer_was_constructed",
                   "elaborated_while_still_being_populated", "read_and_write_woven",
                   "domain_reset", "stray_write_between_chunks")
    assumptions = (
        "Amaranth's Python RTL simulator executes the elaborated netlist faithfully",
        "a reset of the clock domain (injected in idle cycles) abandons the open transaction",
        "protocol conformance is decided by the tracker in models/regfile.py from the property "
        "text; data of accesses it does not accept is left unchecked (strobe exactness and "
        "zero-when-idle are checked on every cycle regardless)",
    )

    def runs(self, prop, tier):
        return 6000 if tier == "quick" else 80000

    # ------------------------------------------------------------------------------------------
    def gen_config(self, rng, prop):
        dw = rng.choice([1, 2, 3, 4, 5, 8, 8, 8, 16, 32])
        aw = rng.range(1, 6) if not rng.chance(0.1) else rng.range(7, 8)
        al = rng.choice([0, 0, 0, 1, 2, 3])
        regs = []
        for i in range(rng.range(0, 6) if not rng.chance(0.1) else rng.range(7, 10)):
            w = rng.choice([0, 1, max(dw - 1, 1), dw, dw + 1, 2 * dw, 2 * dw + 3, 3 * dw, 4 * dw])
            acc = rng.choice(["r", "w", "rw", "rw"])
            size = (w + dw - 1) // dw + rng.choice([0, 0, 0, 1, 2])
            r = {"w": w, "acc": acc, "size": size, "align": None, "addr": None}
            if rng.chance(0.3):
                r["align"] = rng.range(0, 2)
            if rng.chance(0.4):
                r["addr"] = rng.below(1 << aw)
            regs.append(r)
        if rng.chance(0.25):
            # packed layout: back-to-back registers of odd sizes -> many unaligned multi-chunk
            # registers whose shadow chunks collide (the shape that needs the sharing limit)
            al = 0
            regs = [{"w": rng.choice([1, dw, dw + 1, 2 * dw, 2 * dw + 1, 3 * dw, 4 * dw + 1]),
                     "acc": rng.choice(["r", "w", "rw", "rw"]), "size": 0, "align": None,
                     "addr": None} for _ in range(rng.range(2, 6))]
            for r in regs:
                r["size"] = (r["w"] + dw - 1) // dw
            aw = max(aw, 4)
        if rng.chance(0.06):
            # many one-word registers: with no sharing limit they all share one shadow chunk
            al = 0
            aw = max(aw, 5)
            regs = [{"w": rng.choice([1, max(1, dw - 1), dw]), "acc": rng.choice(["r", "rw", "rw", "w"]),
                     "size": 1, "align": None, "addr": None} for _ in range(rng.range(7, 16))]
        if rng.chance(0.04):
            # wide map, registers far apart: the shadow has to grow a lot to separate them
            aw = rng.choice([16, 24, 32, 40, 48])
            al = 0
            regs = []
            for a_ in [0, 1 << (aw - 1), (1 << (aw - 2)) + 8][:rng.range(2, 3)]:
                w_ = rng.choice([1, dw, 2 * dw])
                regs.append({"w": w_, "acc": rng.choice(["r", "w", "rw", "rw"]),
                             "size": (w_ + dw - 1) // dw, "align": None, "addr": a_})
        ov = rng.choice([None, None, 0, 1, 2, 3])
        ov2 = rng.choice([x for x in [None, 0, 1, 2, 3] if x != ov])
        mode = rng.wchoice([("proto", 5), ("mixed", 3), ("raw", 2)])
        return {"dw": dw, "aw": aw, "al": al, "regs": regs, "ov": ov, "ov2": ov2, "mode": mode,
                "hwseed": rng.bits(32),
                "late": rng.range(1, max(1, len(regs))) if (regs and rng.chance(0.12)) else 0,
                "mid_elab": int(rng.chance(0.5)), "omit": int(rng.chance(0.3)),
                "reg_kind": rng.choice(["valueq", "falsy"]) if rng.chance(0.08) else None}

    def gen_ops(self, rng, config, prop):
        ops = []
        dw, aw = config["dw"], config["aw"]
        nreg = max(1, len(config["regs"]))
        target = rng.range(60, 160)
        cycles = 0
        mode = config["mode"]
        p_rst = rng.choice([0, 0, 0.1])
        while cycles < target:
            k = rng.below(100)
            if mode == "raw" or (mode == "mixed" and k < 25):
                ops.append({"k": "raw", "addr": rng.below(1 << aw), "r": rng.below(2),
                            "w": rng.below(2), "data": rng.bits(dw)})
                cycles += 1
            elif k < 35:
                n = rng.range(1, 2)
                ops.append({"k": "idle", "n": n} if not rng.chance(p_rst) else {"k": "reset"})
                cycles += n
            elif mode == "proto" and k < 45:
                # conforming access to an arbitrary (possibly unmapped) address: only first
                # addresses of registers or unmapped addresses are conforming single accesses; the
                # model tolerates anything, so just pick any address and let the tracker decide
                ops.append({"k": "raw", "addr": rng.below(1 << aw), "r": rng.below(2),
                            "w": rng.below(2), "data": rng.bits(dw)})
                cycles += 1
            elif k < 55:
                size = 6
                ops.append({"k": "weave", "reg": rng.below(nreg), "rn": rng.below(12),
                            "wn": rng.below(12), "ord": [rng.below(3) for _ in range(size)],
                            "gaps": [rng.range(1, 2) if rng.chance(0.15) else 0 for _ in range(size)],
                            "data": [rng.bits(dw) for _ in range(size)]})
                cycles += 6
            else:
                size = 6
                n = None if rng.chance(0.7) else rng.below(12)
                gaps = [rng.range(1, 2) if rng.chance(0.2) else 0 for _ in range(size)]
                if rng.chance(0.004):
                    gaps[rng.range(1, 3)] = rng.range(250, 300)     # a long quiet spell mid-way
                    cycles += 300
                ops.append({"k": "txn", "reg": rng.below(nreg), "mode": rng.choice(["r", "w", "rw"]),
                            "n": n, "gaps": gaps, "data": [rng.bits(dw) for _ in range(size)]})
                if rng.chance(0.2):
                    ops[-1]["pokes"] = {str(rng.range(1, 4)): rng.below(1 << aw)}
                cycles += 4
        return ops

    # ------------------------------------------------------------------------------------------
    def run(self, config, ops, props, stats, hist):
        from amaranth_soc import csr
        dw, aw = config["dw"], config["aw"]
        hwseed = config["hwseed"]
        made = []

        def make(m_):
            made.append(hw.must_accept(
                "C04" if "C04" in props else "C05", f"csr.Multiplexer(shadow_overlaps={config['ov']})",
                csr.Multiplexer, m_, **hw.spelled(config.get("omit"), {"shadow_overlaps": None},
                                                  shadow_overlaps=config["ov"])))
            if config.get("late") and config.get("mid_elab"):
                # API order: the multiplexer is elaborated once before the map is complete
                hw.elaborate_once(made[-1])
                stats.fault("elaborated_while_still_being_populated")
        mm, placed, skipped = build_map(config, make)
        dut = made[0]
        duts = [(dut, placed)]
        if config.get("late"):
            stats.fault("registers_added_after_multiplexer_was_constructed")
        differential = "C05" in props
        if differential:
            mm2, placed2, _ = build_map(
                config, lambda m_: made.append(hw.construct(csr.Multiplexer, m_,
                                                            shadow_overlaps=config["ov2"])))
            dut2 = made[1]
            duts.append((dut2, placed2))
        top, rst = hw.make_top_with_reset(*[d for d, _ in duts])
        sim = hw.build_sim(top)

        specs = [RegSpec(i, s, e, w, acc in ("r", "rw"), acc in ("w", "rw"))
                 for i, (reg, s, e, w, acc) in enumerate(placed)]
        model = RegFile(dw, specs)
        cycles = expand_csr_ops(ops, [(s.start, s.end) for s in specs], aw, dw,
                                lambda t, bits: cval(hwseed, 999, t, bits))
        for s in specs:
            size = s.end - s.start
            if s.start % (1 << (size - 1).bit_length()) != 0:
                stats.probe("layout_has_unaligned_register")
            if size * dw > s.width and size > (s.width + dw - 1) // dw:
                stats.probe("layout_has_padded_register")
            if s.width == 0:
                stats.probe("layout_has_zero_width_register")
        if len(specs) >= 2:
            stats.probe("layout_multi_register")
        if skipped:
            stats.probe("register_add_refused_in_layout", skipped)
        check_r = "C04" in props
        check_w = "C05" in props

        async def tb(ctx):
            p = hw.Pins(ctx)
            prev = None
            prev_hit = None
            prev_addr = prev_rs = prev_ws = 0
            prev_last_incomplete = False
            for t, (addr, rs, ws, wd, tag) in enumerate(cycles):
                for d, pl in duts:
                    p.set(d.bus.addr, addr)
                    p.set(d.bus.r_stb, rs)
                    p.set(d.bus.w_stb, ws)
                    p.set(d.bus.w_data, wd)
                r_vals = {}
                for i, s in enumerate(specs):
                    if s.readable:
                        v = cval(hwseed, i, t, s.width)
                        r_vals[i] = v
                        if s.width:
                            for d, pl in duts:
                                p.set(pl[i][0].element.r_data, v)
                e = model.step(addr, rs, ws, wd, r_vals)
                p.set(rst, int(tag == "reset"))
                if tag == "reset":
                    # fault: the domain is reset in an idle cycle, possibly in the middle of a
                    # transaction, which is thereby abandoned
                    model._break()
                    stats.fault("domain_reset")
                # ---- observe --------------------------------------------------------------
                bus_r = p.get(dut.bus.r_data)
                obs = [bus_r]
                if check_r:
                    if prev is not None and prev.next_r[0] == "exact":
                        stats.checks += 1
                        if bus_r != prev.next_r[1]:
                            cls = "r_data-nonzero-when-idle" if (prev.hit is None or not
                                                                 prev.hit.readable or not prev_rs) \
                                else "r_data-not-snapshot-slice"
                            raise Violation("C04", cls, t,
                                            f"bus.r_data={bus_r:#x} expected {prev.next_r[1]:#x} "
                                            f"(previous cycle addr={prev_addr} r_stb={prev_rs})")
                    for i, x in e.r_stb.items():
                        g = p.get(placed[i][0].element.r_stb)
                        obs.append(g)
                        stats.checks += 1
                        if g != x:
                            raise Violation("C04", "r_stb-inexact", t,
                                            f"register {i} [{specs[i].start},{specs[i].end}) "
                                            f"r_stb={g} expected {x} (addr={addr} r_stb={rs})")
                if check_w:
                    for i, s in enumerate(specs):
                        if not s.writable:
                            continue
                        g = p.get(placed[i][0].element.w_stb)
                        obs.append(g)
                        x = 1 if (prev is not None and i in prev.next_w) else 0
                        stats.checks += 1
                        if g != x:
                            raise Violation("C05", "w_stb-inexact", t,
                                            f"register {i} [{s.start},{s.end}) w_stb={g} expected "
                                            f"{x} (previous cycle addr={prev_addr} w_stb={prev_ws})")
                        if g and prev.next_w[i] is not None:
                            gd = p.get(placed[i][0].element.w_data) if s.width else 0
                            obs.append(gd)
                            for k, cv in sorted(prev.next_w[i].items()):
                                lim = max(0, min(dw, s.width - k * dw))
                                sl = (gd >> (k * dw)) & ((1 << lim) - 1)
                                stats.checks += 1
                                if sl != cv & ((1 << lim) - 1):
                                    raise Violation("C05", "w_data-not-concatenation", t,
                                                    f"register {i} chunk {k}: w_data slice "
                                                    f"{sl:#x} expected {cv & ((1 << lim) - 1):#x}")
                            if model.complete_value(s, prev.next_w[i]) is not None:
                                stats.work += 1
                    if differential:
                        # Sound differential: compare the two sharing limits only on observables
                        # the property defines (strobes always; data where the tracker accepts).
                        d2, pl2 = duts[1]
                        if prev is not None and prev.next_r[0] == "exact":
                            b2 = p.get(d2.bus.r_data)
                            stats.checks += 1
                            if b2 != bus_r:
                                raise Violation("C05", "sharing-limit-changes-r_data", t,
                                                f"shadow_overlaps={config['ov']} gives r_data="
                                                f"{bus_r:#x}, {config['ov2']} gives {b2:#x}")
                        for i, s in enumerate(specs):
                            el1, el2 = placed[i][0].element, pl2[i][0].element
                            if s.readable:
                                stats.checks += 1
                                if p.get(el1.r_stb) != p.get(el2.r_stb):
                                    raise Violation("C05", "sharing-limit-changes-r_stb", t,
                                                    f"register {i}")
                            if s.writable:
                                w1, w2 = p.get(el1.w_stb), p.get(el2.w_stb)
                                stats.checks += 1
                                if w1 != w2:
                                    raise Violation("C05", "sharing-limit-changes-w_stb", t,
                                                    f"register {i}")
                                if w1 and s.width and prev is not None and \
                                        prev.next_w.get(i) is not None:
                                    g1, g2 = p.get(el1.w_data), p.get(el2.w_data)
                                    for k in sorted(prev.next_w[i]):
                                        lim = max(0, min(dw, s.width - k * dw))
                                        m_ = ((1 << lim) - 1) << (k * dw)
                                        if (g1 & m_) != (g2 & m_):
                                            raise Violation("C05", "sharing-limit-changes-w_data",
                                                            t, f"register {i} chunk {k}")
                # ---- statistics ----------------------------------------------------------
                if tag == "gap":
                    stats.fault("gap")
                elif tag == "weave":
                    stats.fault("read_and_write_woven")
                elif tag == "poke":
                    stats.fault("stray_write_between_chunks")
                    if e.hit is None or not e.hit.writable:
                        stats.probe("ignored_write_inside_a_write_transaction")
                elif tag == "raw":
                    stats.fault("byzantine_raw")
                if rs and ws:
                    stats.fault("rw_same_cycle")
                if (rs or ws) and e.hit is None:
                    stats.fault("unmapped_access")
                if (rs or ws) and e.hit is not None and model.cur is None:
                    stats.fault("nonconforming_access")
                if tag == "txn-abort" and (t + 1 == len(cycles) or cycles[t + 1][4] != "txn-abort"):
                    stats.fault("abort")
                if e.next_r[0] == "exact" and e.hit is not None and e.hit.readable and rs:
                    if addr - e.hit.start >= (e.hit.width + dw - 1) // dw:
                        stats.probe("read_of_padding_chunk")
                    if addr == e.hit.end - 1:
                        stats.work += 1
                        if e.hit.end - e.hit.start > 1:
                            stats.probe("multi_chunk_read_completed")
                if e.txn_start and prev_hit is not None and e.hit is not None and \
                        prev_hit.idx != e.hit.idx and prev_last_incomplete:
                    stats.probe("abort_then_other_register")
                if rs or ws:
                    prev_hit = e.hit
                    prev_last_incomplete = e.hit is not None and addr != e.hit.end - 1
                hist.rec(t, addr, rs, ws, wd, obs)
                prev, prev_addr, prev_rs, prev_ws = e, addr, rs, ws
                await ctx.tick()
            stats.cycles += len(cycles)

        hw.run_tb(sim, tb)

    # ------------------------------------------------------------------------------------------
    def simplify_op(self, op):
        if op.get("k") == "txn":
            if any(op.get("gaps") or []):
                yield dict(op, gaps=[])
            if op.get("pokes"):
                yield dict(op, pokes={})
            if op.get("mode") == "rw":
                yield dict(op, mode="r")
                yield dict(op, mode="w")
            if any(d not in (0, 1) for d in (op.get("data") or [])):
                yield dict(op, data=[1] * len(op["data"]))
        elif op.get("k") == "weave":
            if any(op.get("gaps") or []):
                yield dict(op, gaps=[])
            if any(op.get("ord") or []):
                yield dict(op, ord=[])
            yield {"k": "txn", "reg": op.get("reg", 0), "mode": "r", "n": op.get("rn", 0),
                   "gaps": [], "data": op.get("data") or []}
            yield {"k": "txn", "reg": op.get("reg", 0), "mode": "w", "n": op.get("wn", 0),
                   "gaps": [], "data": op.get("data") or []}
        elif op.get("k") == "raw":
            if op.get("r") and op.get("w"):
                yield dict(op, r=0)
                yield dict(op, w=0)
            if op.get("data") not in (0, 1, None):
                yield dict(op, data=1)
        elif op.get("k") == "idle" and op.get("n", 1) > 1:
            yield dict(op, n=1)
        elif op.get("k") == "reset":
            yield {"k": "idle", "n": 1}

    def shrink_config(self, config, ops):
        regs = config["regs"]
        for j in range(len(regs)):
            c = dict(config, regs=regs[:j] + regs[j + 1:])
            # keep register indices of later registers stable where possible
            o = []
            for op in ops:
                if op.get("k") in ("txn", "weave"):
                    r = op.get("reg", 0) % max(1, len(regs))
                    if r == j:
                        continue
                    op = dict(op, reg=r - 1 if r > j else r)
                o.append(op)
            yield c, o
        if config.get("late"):
            yield dict(config, late=0), ops
        if config["ov"] is not None:
            yield dict(config, ov=None), ops
        if config["al"]:
            yield dict(config, al=0), ops
        for j, r in enumerate(regs):
            if r.get("align") is not None:
                yield dict(config, regs=regs[:j] + [dict(r, align=None)] + regs[j + 1:]), ops
            if r["size"] > (r["w"] + config["dw"] - 1) // config["dw"]:
                yield dict(config, regs=regs[:j] + [dict(r, size=(r["w"] + config["dw"] - 1) //
                                                        config["dw"])] + regs[j + 1:]), ops
        if config["mode"] != "proto":
            pass

    def sample(self, config, ops):
        return {"config": config, "first_ops": ops[:8], "n_ops": len(ops)}


WORLD = MuxWorld()
