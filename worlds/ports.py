"""World `ports` — C20: port directions (simulated) and signature round-trips (sampled).

Direction half: for every component class with a bus-facing port and every generated
configuration two instances are built. Instance A is wired with wiring.connect() to the
complementary *standard* interface with the same parameters (an initiator for target ports; a
target for the arbiter's output) and driven on that far interface; instance B is poked directly at
its port, as the repository's own tests do. connect() must succeed, and the two traces under the
same seeded stimulus must be equal.
Signature half (plain seeded sampling, no simulated time): create() round-trips, equality iff
defining parameters are equal, member presence and widths follow the parameters."""
from simkit.core import World, Violation, Refused
from simkit.rng import cval
from simkit import hw
from worlds.components import FACTORIES

PORT_CLASSES = ["csr.Multiplexer", "csr.Decoder", "csr.Bridge", "csr.EventMonitor",
                "WishboneCSRBridge", "wishbone.Decoder", "wishbone.Arbiter", "WishboneSRAM",
                "gpio.Peripheral"]
SIG_CLASSES = ["csr.Signature", "csr.Element.Signature", "csr.FieldPort.Signature",
               "wishbone.Signature", "event.Source.Signature", "gpio.PinSignature"]
FEATS = ["err", "rty", "stall", "lock", "cti", "bte"]


def make_sig(cls, prm):
    from amaranth import unsigned, signed
    from amaranth.lib import enum as aenum
    from amaranth_soc import csr, wishbone, event, gpio
    def fresh(n):
        return int(str(n))      # a separately computed int object (not the caller's / not interned)
    if cls == "csr.Signature":
        return csr.Signature(addr_width=fresh(prm["aw"]), data_width=fresh(prm["dw"]))
    if cls == "csr.Element.Signature":
        return csr.Element.Signature(fresh(prm["w"]), prm["acc"])
    if cls == "csr.FieldPort.Signature":
        sh = prm["shape"]
        if sh[0] == "int":
            shape = fresh(sh[1])
        elif sh[0] == "u":
            shape = unsigned(fresh(sh[1]))
        elif sh[0] == "s":
            shape = signed(sh[1])
        elif sh[0] == "range":
            shape = range(sh[1])
        else:
            shape = _enum(sh[1], sh[2])
        return csr.FieldPort.Signature(shape, prm["acc"])
    if cls == "wishbone.Signature":
        how = prm.get("feats_as", "strs")
        if how == "enum_set":
            arg = {wishbone.Feature(f) for f in prm["feats"]}
        elif how == "list":
            arg = [f for f in prm["feats"]]
        elif how == "frozenset":
            arg = frozenset(wishbone.Feature(f) for f in prm["feats"])
        else:
            arg = set(prm["feats"])
        sig = wishbone.Signature(addr_width=prm["aw"], data_width=prm["dw"],
                                 granularity=prm["g"], features=arg)
        # the caller goes on using (and changing) its own collection afterwards
        if prm.get("mutate") and isinstance(arg, (set, list)):
            extra = [f for f in FEATS if f not in prm["feats"]]
            if isinstance(arg, set):
                if prm["mutate"] == "add" and extra:
                    arg.add(wishbone.Feature(extra[0]) if how == "enum_set" else extra[0])
                elif arg:
                    arg.pop()
            else:
                if prm["mutate"] == "add" and extra:
                    arg.append(extra[0])
                elif arg:
                    arg.pop()
        return sig
    if cls == "event.Source.Signature":
        return event.Source.Signature(trigger=prm["trigger"])
    return gpio.PinSignature()


_ENUMS = {}


def _enum(n, width):
    from amaranth.lib import enum as aenum
    key = (n, width)
    if key not in _ENUMS:
        class E(aenum.Enum, shape=width):
            A = 0
            B = n
        _ENUMS[key] = E
    return _ENUMS[key]


def canon(cls, prm):
    """Defining parameters in canonical form (cast shapes, sets)."""
    if cls == "csr.FieldPort.Signature":
        sh = prm["shape"]
        if sh[0] in ("int", "u"):
            c = ("u", sh[1])
        elif sh[0] == "s":
            c = ("s", sh[1])
        elif sh[0] == "range":
            c = ("u", max(0, (sh[1] - 1)).bit_length() if sh[1] > 0 else 0)
        else:
            c = ("u", sh[2])
        return (c, prm["acc"])
    if cls == "wishbone.Signature":
        # how the feature collection was spelled, and what the caller did with its own collection
        # afterwards, are not defining parameters
        return (prm["aw"], prm["dw"], prm["g"] if prm["g"] is not None else prm["dw"],
                tuple(sorted(prm["feats"])))
    return tuple(sorted((k, str(v)) for k, v in prm.items()))


def expected_members(cls, prm):
    """name -> width (None: any) the parameters imply."""
    if cls == "csr.Signature":
        return {"addr": prm["aw"], "r_data": prm["dw"], "r_stb": 1, "w_data": prm["dw"], "w_stb": 1}
    if cls == "csr.Element.Signature":
        m = {}
        if "r" in prm["acc"]:
            m.update(r_data=prm["w"], r_stb=1)
        if "w" in prm["acc"]:
            m.update(w_data=prm["w"], w_stb=1)
        return m
    if cls == "csr.FieldPort.Signature":
        w = canon(cls, prm)[0][1]
        return {"r_data": w, "r_stb": 1, "w_data": w, "w_stb": 1}
    if cls == "wishbone.Signature":
        g = prm["g"] if prm["g"] is not None else prm["dw"]
        m = {"adr": prm["aw"], "dat_w": prm["dw"], "dat_r": prm["dw"], "sel": prm["dw"] // g,
             "cyc": 1, "stb": 1, "we": 1, "ack": 1}
        for f, w in (("err", 1), ("rty", 1), ("stall", 1), ("lock", 1), ("cti", 3), ("bte", 2)):
            if f in prm["feats"]:
                m[f] = w
        return m
    if cls == "event.Source.Signature":
        return {"i": 1, "trg": 1}
    return {"i": 1, "o": 1, "oe": 1}


class PortsWorld(World):
    name = "ports"
    properties = ("C20",)
    real_components = tuple(PORT_CLASSES) + tuple(SIG_CLASSES) + ("amaranth.lib.wiring.connect",)
    stub_components = ("complementary standard interface (csr.Interface / wishbone.Interface)",
                       "seeded stimulus on the far side of connect()")
    fault_kinds = ("caller_mutates_argument_after_construction",)
    nontrivial_needs_fault = False
    assumptions = (
        "the signature half is plain seeded sampling of parameter tuples (a pure function of its "
        "inputs): no schedule or fault is involved and none is claimed",
        "the direction half compares a connect()-attached instance with a directly poked one; "
        "both are separate instances built from the same configuration",
    )

    def runs(self, prop, tier):
        return {"quick": 4000, "thorough": 50000}[tier]

    def rule(self, prop):
        return ("cases = (component class, configuration, stimulus burst) for the direction half "
                "and (signature class, parameter tuple pair) for the signature half; non-trivial = "
                "a connect()-attached instance was simulated, or a pair of signatures was "
                "compared; distinct = distinct (config, ops, observed-history) digests")

    # ------------------------------------------------------------------------------------------
    def _params(self, rng, cls):
        if cls == "csr.Signature":
            return {"aw": rng.range(1, 12) if not rng.chance(0.1) else rng.range(257, 400),
                    "dw": rng.range(1, 40) if not rng.chance(0.1) else rng.range(257, 1100)}
        if cls == "csr.Element.Signature":
            return {"w": rng.range(0, 40) if not rng.chance(0.2) else rng.range(257, 1100),
                    "acc": rng.choice(["r", "w", "rw"])}
        if cls == "csr.FieldPort.Signature":
            k = rng.below(5)
            big = rng.range(257, 600) if rng.chance(0.15) else None
            sh = [["int", big or rng.range(0, 12)], ["u", big or rng.range(0, 12)],
                  ["s", big or rng.range(1, 12)],
                  ["range", rng.choice([1, 2, 3, 4, 5, 8, 9, 16, 17, 256])],
                  ["enum", rng.range(1, 7), rng.range(3, 6)]][k]
            return {"shape": sh, "acc": rng.choice(["r", "w", "rw", "nc"])}
        if cls == "wishbone.Signature":
            dw = rng.choice([8, 16, 32, 64])
            return {"aw": rng.range(0, 12), "dw": dw,
                    "g": rng.choice([None] + [x for x in (8, 16, 32, 64) if x <= dw]),
                    # (the order in which the caller lists the features is arbitrary)
                    "feats": rng.shuffle(sorted(rng.subset(FEATS))),
                    "feats_as": rng.choice(["strs", "strs", "enum_set", "list", "frozenset"]),
                    "mutate": rng.choice([None, None, "add", "drop"])}
        if cls == "event.Source.Signature":
            return {"trigger": rng.choice(["level", "rise", "fall"])}
        return {}

    def _perturb(self, rng, cls, prm):
        q = dict(prm)
        if not prm:
            return q
        k = rng.choice(sorted(x for x in prm if x not in ("feats_as", "mutate")))
        for _ in range(8):
            cand = self._params(rng, cls)
            if cand[k] != prm[k]:
                q[k] = cand[k]
                break
        return q

    def gen_config(self, rng, prop):
        if rng.chance(0.45):
            cls = rng.choice(SIG_CLASSES)
            p1 = self._params(rng, cls)
            how = rng.below(3)
            p2 = dict(p1) if how == 0 else (self._perturb(rng, cls, p1) if how == 1
                                            else self._params(rng, cls))
            if cls == "wishbone.Signature" and how != 0 and rng.chance(0.3):
                # two parameters differ in a way that keeps the byte-address span the same
                # (a coarser granularity with correspondingly more word-address bits)
                p2 = dict(p1)
                g1 = p1["g"] if p1["g"] is not None else p1["dw"]
                others = [x for x in (8, 16, 32, 64) if x <= p1["dw"] and x != g1]
                if others:
                    g2 = rng.choice(others)
                    k = (g2.bit_length() - g1.bit_length())
                    p2["g"] = g2
                    p2["aw"] = max(0, p1["aw"] + k)
            if cls == "wishbone.Signature" and how == 0:
                # the same features, listed in another order and spelled another way
                p2["feats"] = rng.shuffle(sorted(p1["feats"]))
                p2["feats_as"] = rng.choice(["strs", "enum_set", "list", "frozenset"])
            if cls == "csr.FieldPort.Signature" and rng.chance(0.3):
                # cast-equal but differently spelled shapes
                w = rng.range(1, 8)
                p1 = {"shape": ["int", w], "acc": p1["acc"]}
                p2 = {"shape": rng.choice([["u", w], ["range", 1 << w], ["enum", 1, w]]),
                      "acc": p1["acc"]}
            other = rng.choice(SIG_CLASSES)
            return {"kind": "sig", "cls": cls, "p1": p1, "p2": p2, "other": other,
                    "p3": self._params(rng, other)}
        cls = rng.choice(PORT_CLASSES)
        gen, _ = FACTORIES[cls]
        return {"kind": "dir", "cls": cls, "cfg": gen(rng.sub("cfg")), "burst": rng.range(8, 24),
                "stim": rng.bits(32)}

    def gen_ops(self, rng, config, prop):
        return []

    # ------------------------------------------------------------------------------------------
    def run(self, config, ops, props, stats, hist):
        if config["kind"] == "sig":
            return self.run_sig(config, stats, hist)
        return self.run_dir(config, stats, hist)

    def run_sig(self, config, stats, hist):
        from amaranth import Value
        cls = config["cls"]
        try:
            s1 = make_sig(cls, config["p1"])
            s2 = make_sig(cls, config["p2"])
            s3 = make_sig(config["other"], config["p3"])
        except (ValueError, TypeError) as e:
            raise Refused(str(e))
        stats.steps += 1
        # create() round-trip
        for s, prm in ((s1, config["p1"]), (s2, config["p2"])):
            iface = s.create(path=("x",))
            stats.checks += 1
            if not (iface.signature == s):
                raise Violation("C20", "create-does-not-round-trip", 0,
                                f"{cls}({prm}).create().signature != the signature")
            want = expected_members(cls, prm)
            got = {}
            for name, member in s.members.items():
                if member.is_port:
                    from amaranth import Shape
                    got[name] = Shape.cast(member.shape).width
            stats.checks += 1
            if got != want:
                raise Violation("C20", "members-do-not-follow-parameters", 0,
                                f"{cls}({prm}): members {got}, parameters imply {want}")
            for name, w in want.items():
                if not hasattr(iface, name):
                    raise Violation("C20", "members-do-not-follow-parameters", 0,
                                    f"{cls}({prm}).create() has no member {name!r}")
                if len(Value.cast(getattr(iface, name))) != w:
                    raise Violation("C20", "members-do-not-follow-parameters", 0,
                                    f"{cls}({prm}).create().{name} has width "
                                    f"{len(Value.cast(getattr(iface, name)))}, expected {w}")
            if not (s.flip().flip() == s):
                raise Violation("C20", "double-flip-not-equal", 0, f"{cls}({prm})")
            if cls == "wishbone.Signature":
                stats.checks += 1
                if sorted(f.value for f in s.features) != sorted(prm["feats"]):
                    raise Violation("C20", "parameters-change-after-construction", 0,
                                    f"{cls}({prm}): features now "
                                    f"{sorted(f.value for f in s.features)}")
                if prm.get("mutate"):
                    stats.fault("caller_mutates_argument_after_construction")
        if cls == "event.Source.Signature":
            # the signatures of two sources that have (different) event maps attached
            from amaranth_soc import event
            i1, i2 = s1.create(path=("a",)), s2.create(path=("b",))
            i1.event_map, i2.event_map = event.EventMap(), event.EventMap()
            s1, s2 = i1.signature, i2.signature
            stats.fault("caller_mutates_argument_after_construction")
        eq = (s1 == s2)
        want_eq = canon(cls, config["p1"]) == canon(cls, config["p2"])
        stats.checks += 2
        if bool(eq) != want_eq or bool(s2 == s1) != want_eq:
            raise Violation("C20", "equality-not-iff-parameters-equal", 0,
                            f"{cls}: {config['p1']} == {config['p2']} is {eq}, parameters are "
                            f"{'equal' if want_eq else 'different'}")
        if config["other"] != cls:
            stats.checks += 1
            if s1 == s3 and expected_members(cls, config["p1"]) != \
                    expected_members(config["other"], config["p3"]):
                raise Violation("C20", "signatures-of-different-classes-equal", 0,
                                f"{cls}({config['p1']}) == {config['other']}({config['p3']})")
        stats.work += 1
        stats.state("sig(class,equal)", f"{cls},{int(want_eq)}")
        hist.rec(cls, bool(eq), want_eq)

    def run_dir(self, config, stats, hist):
        from amaranth.lib import wiring
        from amaranth.lib.wiring import flipped
        from amaranth import Value
        from amaranth_soc import csr, wishbone
        cls = config["cls"]
        _, build = FACTORIES[cls]
        a = build(config["cfg"])
        b = build(config["cfg"])
        attr, role = a.port
        port_a = getattr(a.dut, attr)
        # complementary *standard* interface with the same parameters
        # (the parameters given to the constructor where it takes them explicitly, otherwise the
        # ones the component reports for its port)
        pp = a.port_params
        if hasattr(port_a, "granularity"):
            pp = pp or {"addr_width": port_a.addr_width, "data_width": port_a.data_width,
                        "granularity": port_a.granularity, "features": port_a.features}
            far = wishbone.Interface(path=("far",), **pp)
        else:
            pp = pp or {"addr_width": port_a.addr_width, "data_width": port_a.data_width}
            far = csr.Interface(path=("far",), **pp)
        top = hw.make_top(a.dut, b.dut)
        try:
            if role == "target":
                wiring.connect(top, far, port_a)
            else:
                wiring.connect(top, port_a, flipped(far))
        except Exception as e:
            raise Violation("C20", "connect-to-complementary-interface-fails", 0,
                            f"{a.cls_name}.{attr}: wiring.connect() raised {type(e).__name__}: "
                            f"{str(e)[:160]}", key=f"connect:{a.cls_name}:{type(e).__name__}")
        sim = hw.build_sim(top)
        prefix = attr + "__"

        def far_sig(name):
            obj = far
            for part in name[len(prefix):].split("__"):
                obj = getattr(obj, part)
            return Value.cast(obj)

        in_a = [(n, far_sig(n) if n.startswith(prefix) else s) for n, s in a.inputs]
        out_a = [(n, far_sig(n) if n.startswith(prefix) else s) for n, s in a.outputs]

        async def tb(ctx):
            p = hw.Pins(ctx)
            for t in range(config["burst"]):
                for i, ((n, sa), (_, sb)) in enumerate(zip(in_a, b.inputs)):
                    v = cval(config["stim"], i, t, len(sa))
                    p.drive_input("C20", f"{a.cls_name}.{n}", sa, v)
                    p.drive_input("C20", f"{a.cls_name}.{n}", sb, v)
                row = []
                for (n, sa), (_, sb) in zip(out_a, b.outputs):
                    ga, gb = p.get(sa), p.get(sb)
                    row.append(ga)
                    stats.checks += 1
                    if ga != gb:
                        raise Violation("C20", "connected-port-behaves-differently", t,
                                        f"{a.cls_name}: {n} is {ga:#x} through connect() and "
                                        f"{gb:#x} when poked directly")
                hist.rec(t, row)
                await ctx.tick()
            stats.cycles += config["burst"]

        hw.run_tb(sim, tb)
        stats.work += 1
        stats.state("dir(class)", a.cls_name)

    def sample(self, config, ops):
        return {"config": config}


WORLD = PortsWorld()
