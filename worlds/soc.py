"""World `soc` — C01: the memory map tells the truth about the hardware, end to end.

System: generated hierarchies built only from real components: a root wishbone.Decoder over
WishboneSRAMs, nested wishbone.Decoders and WishboneCSRBridges over trees of csr.Decoders over
csr.Bridge register banks, csr.EventMonitors and gpio.Peripherals (a CSR-rooted variant starts at
a csr.Decoder). Only the root initiator and the hardware side (pins, event lines, read-only field
values) are agents.
Workload: seeded register transactions and multi-granule words with arbitrary select masks,
followed by a sweep over EVERY granule address of the root bus in seeded order.
Oracle (software view vs hardware view): from root.memory_map.all_resources()/decode_address()
only, the set of leaf events (which register's element r_stb / w_stb fires, with which data slice;
which SRAM granule changes) is predicted for every access and must equal the observed set (iff)."""
from simkit.core import World, Violation, Refused
from simkit.rng import cval, mix
from simkit import hw
from models.regfile import RegFile, RegSpec

TRIGGERS = ["level", "rise", "fall"]


def log2(x):
    return x.bit_length() - 1


class SocWorld(World):
    name = "soc"
    properties = ("C01",)
    real_components = ("wishbone.Decoder", "wishbone.sram.WishboneSRAM",
                       "csr.wishbone.WishboneCSRBridge", "csr.Decoder", "csr.Bridge",
                       "csr.Multiplexer", "csr.Builder", "csr.Register + field actions",
                       "csr.EventMonitor", "gpio.Peripheral", "memory.MemoryMap")
    stub_components = ("root bus initiator (seeded closed-loop agent)",
                       "hardware side: pins, event lines, read-only field values (seeded)")
    fault_kinds = ("aborted_register_transaction", "idle_gap", "cyc_without_stb", "back_to_back",
                   "partial_select", "zero_select", "unassigned_address", "window_edge_address",
                   "hardware_toggle_between_transactions", "write_to_read_only_sram",
                   "abandoned_query", "domain_reset_mid_access")
    assumptions = (
        "a reset of the clock domain returns the component to its initial state (the state the "
        "property calls initial is the state after reset, as for every Amaranth register)",
        "Amaranth's Python RTL simulator executes the elaborated netlists faithfully",
        "register values are never modelled: bus-side data is compared with what the leaf's own "
        "element port showed at its strobe, so peripheral semantics (C12-C16) cannot leak in",
        "hardware inputs are held quiescent during a transfer (this check decides routing, not "
        "snapshot atomicity)",
        "a Wishbone access that selects no window must stay unacknowledged for ratio+4 cycles "
        "(every leaf acknowledges within ratio+1); alignment padding of a window is unassigned in "
        "the map (decode_address() is None) and is checked like any other unassigned address",
        "windows are dense between buses of equal granularity, at implicit addresses or explicit "
        "multiples of the window size (the property's domain)",
    )

    def runs(self, prop, tier):
        return {"quick": 320, "thorough": 6000}[tier]

    # ------------------------------------------------------------------------------------------
    @staticmethod
    def _p2(x):
        return 1 << (max(1, x) - 1).bit_length()

    def _gen_leaf(self, rng, cw):
        """Returns (node, needed address width)."""
        kind = rng.wchoice([("regs", 4), ("evmon", 2), ("gpio", 2), ("rawmux", 1)])
        if kind == "rawmux":
            regs = []
            total = 0
            for j in range(rng.range(1, 4)):
                w = rng.choice([1, cw, cw + 3, 2 * cw])
                total += (w + cw - 1) // cw
                regs.append({"w": w, "acc": rng.choice(["r", "w", "rw"])})
            aw = max(1, (total - 1).bit_length()) + rng.choice([0, 1])
            return {"t": "rawmux", "aw": aw, "regs": regs,
                    "late": rng.range(1, len(regs)) if rng.chance(0.5) else 0}, aw
        if kind == "regs":
            regs = []
            total = 0
            for j in range(rng.range(1, 4)):
                w = rng.choice([1, cw - 1, cw, cw + 3, 2 * cw, 3 * cw])
                size = self._p2((w + cw - 1) // cw)
                total = (total + size - 1) // size * size + size
                regs.append({"w": w, "acc": rng.choice(["r", "w", "rw"]),
                             "scope": rng.choice([None, None, "blk", 1, "1"]),
                             # free-form names: one register of a bank may be called like this
                             "name": rng.choice(["mux", "blk__ctrl", "1__ctrl", "ctrl"])
                             if (j == 0 and rng.chance(0.2)) else
                             ("ctrl" if rng.chance(0.15) else None)})
            aw = max(1, (total - 1).bit_length()) + rng.choice([0, 0, 1])
            return {"t": "regs", "aw": aw, "regs": regs}, aw
        if kind == "evmon":
            n = rng.range(1, 2 * cw) if not rng.chance(0.25) else rng.range(2 * cw + 1, 4 * cw)
            al = rng.choice([0, 0, 1])
            reg_size = (n + cw - 1) // cw
            aw = 1 + max((reg_size - 1).bit_length(), al)
            return {"t": "evmon", "n": n, "al": al,
                    "trig": [rng.choice(TRIGGERS) for _ in range(4)]}, aw
        pc = rng.range(1, cw + 2)
        extra = rng.choice([0, 0, 1])
        s1, s2 = self._p2((2 * pc + cw - 1) // cw), self._p2((pc + cw - 1) // cw)
        end = (s1 + 2 * s2 + s1 - 1) // s1 * s1 + s1
        return {"t": "gpio", "pc": pc, "extra_aw": extra}, max(1, (end - 1).bit_length()) + extra

    def _gen_csr_tree(self, rng, cw, depth, max_aw):
        """Bottom-up: children first, then an address width that holds them (plus slack)."""
        al = rng.choice([0, 0, 1, 2])
        subs = []
        cursor = 0
        for i in range(rng.range(1, 3) if depth else rng.range(1, 4)):
            if depth < 2 and rng.chance(0.25):
                sub, saw = self._gen_csr_tree(rng, cw, depth + 1, max_aw - 1)
            else:
                sub, saw = self._gen_leaf(rng, cw)
            span = 1 << max(saw, al)
            nxt = (cursor + span - 1) // span * span + span
            if (nxt - 1).bit_length() > max_aw:
                continue
            cursor = nxt
            subs.append({"node": sub, "name": None if rng.chance(0.3) else f"c{depth}_{i}",
                         "addr_sel": None})
        aw = max(2, (max(cursor, 1) - 1).bit_length()) + rng.choice([0, 0, 1])
        aw = min(max(aw, 2), max(max_aw, 2))
        for sc in subs:
            if rng.chance(0.15):
                sc["addr_sel"] = rng.below(8)
        return {"t": "dec", "aw": aw, "al": al, "subs": subs}, aw

    def gen_config(self, rng, prop):
        cw = rng.choice([8, 8, 8, 16, 32])
        root = rng.wchoice([("wb", 8), ("csr", 2)])
        if root == "csr":
            tree, aw = self._gen_csr_tree(rng, cw, 0, 9)
            return {"root": "csr", "cw": cw, "tree": tree, "hwseed": rng.bits(32)}
        D = rng.choice([d for d in (8, 16, 32, 64) if d >= cw])
        ratio = D // cw
        al = rng.choice([0, 0, 1, 2])
        items, need = self._gen_wb_items(rng, cw, ratio, al, 0, 10)
        gaw = max(log2(ratio) + 1, 3, need) + rng.choice([0, 0, 1])
        return {"root": "wb", "cw": cw, "D": D, "gaw": gaw, "al": al, "items": items,
                "hwseed": rng.bits(32), "peek": rng.range(1, 4) if rng.chance(0.3) else None}

    def _gen_wb_items(self, rng, cw, ratio, al, depth, max_gaw):
        """Returns (items, address width needed to hold them)."""
        items = []
        cursor = 0
        for i in range(rng.range(1, 4) if depth == 0 else rng.range(1, 2)):
            kind = rng.wchoice([("sram", 3), ("bridge", 5), ("wbdec", 2 if depth == 0 else 0)])
            if kind == "sram":
                saw = rng.range(max(1, log2(ratio)), 5)
                it = {"t": "sram", "size": 1 << saw, "writable": int(rng.chance(0.8)),
                      "name": None if rng.chance(0.3) else f"ram{depth}_{i}", "addr_sel": None}
            elif kind == "bridge":
                tree, saw = self._gen_csr_tree(rng, cw, 0, 8 if depth == 0 else 6)
                saw = max(saw, log2(ratio), 1)
                tree["aw"] = saw
                if ratio >= 4 and rng.chance(0.08):
                    # a CSR bus smaller than one Wishbone word: the bridge refuses it (the item is
                    # then skipped); should it ever be accepted, the map must still tell the truth
                    tree = {"t": "dec", "aw": 1, "al": 0, "subs": [
                        {"node": {"t": "evmon", "n": rng.range(1, cw), "al": 0,
                                  "trig": [rng.choice(TRIGGERS) for _ in range(4)]},
                         "name": "tiny", "addr_sel": None}]}
                    saw = log2(ratio)
                it = {"t": "bridge", "tree": tree,
                      "name": None if rng.chance(0.4) else f"csr{depth}_{i}", "addr_sel": None}
            else:
                sal = rng.choice([0, 1])
                sub_items, need = self._gen_wb_items(rng, cw, ratio, sal, depth + 1, max_gaw - 1)
                saw = max(need, log2(ratio) + 1, 2) + rng.choice([0, 1])
                it = {"t": "wbdec", "gaw": saw, "al": sal, "items": sub_items,
                      "name": None if rng.chance(0.3) else f"sub{depth}_{i}", "addr_sel": None}
            span = 1 << max(saw, al)
            nxt = (cursor + span - 1) // span * span + span
            if (nxt - 1).bit_length() > max_gaw:
                continue
            cursor = nxt
            if rng.chance(0.15):
                it["addr_sel"] = rng.below(8)
            if rng.chance(0.1):
                it["align_to"] = rng.range(0, 4)
            items.append(it)
        return items, (max(cursor, 1) - 1).bit_length()

    def gen_ops(self, rng, config, prop):
        ops = []
        for _ in range(rng.range(10, 30)):
            k = rng.below(100)
            if k < 40:
                ops.append({"k": "regtxn", "reg": rng.below(64), "mode": rng.choice(["r", "w"]),
                            "n": None if rng.chance(0.75) else rng.below(8),
                            "data": [rng.bits(32) for _ in range(8)], "gap": rng.choice([0, 0, 1, 2])})
            elif k < 85:
                ops.append({"k": "word", "addr": rng.bits(16), "near": rng.below(64) if
                            rng.chance(0.4) else None, "we": rng.below(2), "sel": rng.bits(8),
                            "dat": rng.bits(64), "gap": rng.choice([0, 0, 1, 2]),
                            "cyc_only": int(rng.chance(0.15))})
            elif k < 88:
                # the whole design is reset while a root access is in flight
                ops.append({"k": "reset", "addr": rng.bits(16), "near": rng.below(64) if
                            rng.chance(0.6) else None, "we": rng.below(2), "sel": rng.bits(8),
                            "dat": rng.bits(64), "at": rng.below(8)})
            else:
                ops.append({"k": "hw", "seed": rng.bits(16)})
        return ops

    # ------------------------------------------------------------------------------------------
    def _build_csr(self, node, cw, ctx):
        from contextlib import ExitStack
        from amaranth_soc import csr, event, gpio
        if node["t"] == "regs":
            bld = hw.construct(csr.Builder, addr_width=node["aw"], data_width=cw,
                               granularity=8)
            made = []
            for rc in node["regs"]:
                ctx["n"] += 1
                act = {"r": csr.action.R, "w": csr.action.W, "rw": csr.action.RW}[rc["acc"]]
                reg = csr.Register(csr.Field(act, rc["w"]), access=rc["acc"])
                with ExitStack() as st:
                    if rc.get("scope") is not None:
                        sc = rc["scope"]
                        st.enter_context(bld.Index(sc) if isinstance(sc, int) else bld.Cluster(sc))
                    try:
                        bld.add(rc.get("name") or f"reg{ctx['n']}", reg)
                    except ValueError:
                        bld.add(f"reg{ctx['n']}", reg)      # the free-form name was taken
                made.append((reg, rc))
            try:
                mm = bld.as_memory_map()
            except ValueError as e:
                raise Refused(f"register bank does not fit: {e}")
            br = csr.Bridge(mm)
            ctx["mods"].append(br)
            for reg, rc in made:
                if rc["acc"] == "r":
                    ctx["rfields"].append(reg.f.r_data)
            return br.bus
        if node["t"] == "rawmux":
            from amaranth_soc.memory import MemoryMap
            mm = MemoryMap(addr_width=node["aw"], data_width=cw)
            mux = None
            cut = len(node["regs"]) - int(node.get("late") or 0)
            for j, rc in enumerate(node["regs"]):
                if j == cut:
                    mux = csr.Multiplexer(mm)      # the map is still being filled afterwards
                ctx["n"] += 1
                reg = hw.MockReg(rc["w"], rc["acc"])
                try:
                    mm.add_resource(reg, name=(f"raw{ctx['n']}",), size=(rc["w"] + cw - 1) // cw)
                except ValueError:
                    continue
                if "r" in rc["acc"]:
                    ctx["rfields"].append(reg.element.r_data)
            if mux is None:
                mux = csr.Multiplexer(mm)
            ctx["mods"].append(mux)
            return mux.bus
        if node["t"] == "evmon":
            em = event.EventMap()
            for i in range(node["n"]):
                ctx["n"] += 1
                s = event.Source(trigger=node["trig"][i % len(node["trig"])],
                                 path=(f"src{ctx['n']}",))
                em.add(s)
                ctx["lines"].append(s.i)
            mon = hw.construct(csr.EventMonitor, em, data_width=cw, alignment=node["al"])
            ctx["mods"].append(mon)
            return mon.bus
        if node["t"] == "gpio":
            pc = node["pc"]

            def p2(x):
                return 1 << (max(1, x) - 1).bit_length()
            s1, s2 = p2((2 * pc + cw - 1) // cw), p2((pc + cw - 1) // cw)
            end = (s1 + 2 * s2 + s1 - 1) // s1 * s1 + s1
            aw = max(1, (end - 1).bit_length()) + node["extra_aw"]
            gp = hw.construct(gpio.Peripheral, pin_count=pc, addr_width=aw, data_width=cw)
            ctx["mods"].append(gp)
            for pin in gp.pins:
                ctx["lines"].append(pin.i)
            return gp.bus
        dec = hw.construct(csr.Decoder, addr_width=node["aw"], data_width=cw, alignment=node["al"])
        placed = 0
        for sc in node["subs"]:
            saved = (len(ctx["mods"]), len(ctx["lines"]), len(ctx["rfields"]))
            try:
                bus = self._build_csr(sc["node"], cw, ctx)
                kw = {}
                if sc.get("addr_sel") is not None:
                    slots = (1 << node["aw"]) >> bus.addr_width
                    if slots > 0:
                        kw["addr"] = (sc["addr_sel"] % slots) << bus.addr_width
                name = sc["name"]
                if name is None and sc["node"]["t"] in ("gpio", "evmon"):
                    ctx["n"] += 1
                    name = f"p{ctx['n']}"      # fixed register names would collide when absorbed
                dec.add(bus, name=name, **kw)
                placed += 1
            except (ValueError, Refused):
                del ctx["mods"][saved[0]:]
                del ctx["lines"][saved[1]:]
                del ctx["rfields"][saved[2]:]
                ctx["skipped"] += 1
        ctx["mods"].append(dec)
        return dec.bus

    def build(self, config):
        from amaranth_soc import wishbone, csr
        from amaranth_soc.csr.wishbone import WishboneCSRBridge
        from amaranth_soc.wishbone.sram import WishboneSRAM
        cw = config["cw"]
        ctx = {"mods": [], "lines": [], "rfields": [], "n": 0, "skipped": 0, "srams": [],
               "ack_maps": []}
        if config["root"] == "csr":
            bus = self._build_csr(config["tree"], cw, ctx)
            return bus, ctx
        D = config["D"]
        ratio = D // cw
        gaw = config["gaw"]

        def make_sram(size, writable, tag):
            depth = size * cw // D
            init = [cval(config["hwseed"], 5000 + tag, i, D) for i in range(depth)]
            ram = hw.construct(WishboneSRAM, size=size, data_width=D, granularity=cw,
                               writable=bool(writable), init=init)
            ctx["mods"].append(ram)
            ctx["srams"].append({"ram": ram, "init": init, "writable": bool(writable)})
            ctx["ack_maps"].append(ram.wb_bus.memory_map)
            return ram

        def add_items(dec, items, space_aw):
            for i, it in enumerate(items):
                saved = (len(ctx["mods"]), len(ctx["lines"]), len(ctx["rfields"]), len(ctx["srams"]))
                try:
                    if it["t"] == "sram":
                        sub = make_sram(it["size"], it["writable"], len(ctx["srams"])).wb_bus
                    elif it["t"] == "bridge":
                        cbus = self._build_csr(it["tree"], cw, ctx)
                        br = hw.construct(WishboneCSRBridge, cbus, data_width=D)
                        ctx["mods"].append(br)
                        ctx["ack_maps"].append(br.wb_bus.memory_map)
                        sub = br.wb_bus
                    else:
                        nd = hw.construct(wishbone.Decoder, addr_width=it["gaw"] - log2(ratio),
                                          data_width=D, granularity=cw, alignment=it["al"])
                        add_items(nd, it["items"], it["gaw"])
                        ctx["mods"].append(nd)
                        sub = nd.bus
                    kw = {}
                    if it.get("align_to") is not None:
                        dec.align_to(it["align_to"])
                    if it.get("addr_sel") is not None:
                        span_aw = sub.memory_map.addr_width
                        slots = (1 << space_aw) >> span_aw
                        if slots > 0:
                            kw["addr"] = (it["addr_sel"] % slots) << span_aw
                    dec.add(sub, name=it["name"], **kw)
                except (ValueError, Refused):
                    del ctx["mods"][saved[0]:]
                    del ctx["lines"][saved[1]:]
                    del ctx["rfields"][saved[2]:]
                    del ctx["srams"][saved[3]:]
                    ctx["skipped"] += 1

        root = hw.construct(wishbone.Decoder, addr_width=gaw - log2(ratio), data_width=D,
                            granularity=cw, alignment=config["al"])
        add_items(root, config["items"], gaw)
        ctx["mods"].append(root)
        return root.bus, ctx

    # ------------------------------------------------------------------------------------------
    @staticmethod
    def _window_classes(mm, base, lo, hi, out):
        """Classify every root address by plain arithmetic on windows(): 'own' spans of leaf
        windows (those whose map has no windows of its own) and 'pad' (alignment padding)."""
        for w, n, (s, e, r) in mm.windows():
            own_lo, own_hi = base + s, base + s + (1 << w.addr_width)
            c_lo, c_hi = max(lo, own_lo), min(hi, own_hi)
            if min(hi, base + e) > c_hi:
                out["pad"].append((max(lo, c_hi), min(hi, base + e)))
            if c_lo >= c_hi:
                continue
            if list(w.windows()):
                SocWorld._window_classes(w, base + s, c_lo, c_hi, out)
                # addresses of this window not covered by any sub-window
                out["mid"].append((c_lo, c_hi, w))
            else:
                out["leaf"].append((c_lo, c_hi, w))

    @staticmethod
    def _ack_ranges(mm, base, lo, hi, ack_maps, out):
        """Root addresses that some component acknowledges: own spans of SRAM and bridge windows,
        reached through nested Wishbone decoders (plain arithmetic on windows())."""
        for w, n, (s, e, r) in mm.windows():
            c_lo, c_hi = max(lo, base + s), min(hi, base + s + (1 << w.addr_width))
            if c_lo >= c_hi:
                continue
            if any(w is m_ for m_ in ack_maps):
                out.append((c_lo, c_hi))
            elif list(w.windows()):
                SocWorld._ack_ranges(w, base + s, c_lo, c_hi, ack_maps, out)

    def run(self, config, ops, props, stats, hist):
        cw = config["cw"]
        bus, ctx = self.build(config)
        mm = bus.memory_map
        is_wb = config["root"] == "wb"
        ratio = config["D"] // cw if is_wb else 1
        D = config["D"] if is_wb else cw
        gaw = mm.addr_width
        nwords = (1 << gaw) // ratio
        top, rst = hw.make_top_with_reset(*ctx["mods"])
        sim = hw.build_sim(top)
        if config.get("peek") is not None:
            # a user-style early-exit lookup ("find the first register ...") abandons the iteration
            it = mm.all_resources()
            for _ in range(int(config["peek"])):
                if next(it, None) is None:
                    break
            del it
            stats.fault("abandoned_query")
        infos = list(mm.all_resources())
        reginfos = [i for i in infos if hasattr(i.resource, "element")]
        specs = []
        for i, info in enumerate(reginfos):
            el = info.resource.element
            specs.append(RegSpec(i, info.start, info.end, el.width, el.access.readable(),
                                 el.access.writable()))
        rf = RegFile(cw, specs)
        # SRAM resources -> shadow contents, keyed by the resource object the map reports
        ram_of = {}
        for sd in ctx["srams"]:
            for res, name, (s, e) in sd["ram"].wb_bus.memory_map.resources():
                ram_of[id(res)] = sd
        shadow = {}
        for info in infos:
            sd = ram_of.get(id(info.resource))
            if sd is not None:
                for off in range(info.end - info.start):
                    word = sd["init"][off // ratio] if off // ratio < len(sd["init"]) else 0
                    shadow[info.start + off] = (word >> ((off % ratio) * cw)) & ((1 << cw) - 1)
        cls = {"leaf": [], "pad": [], "mid": []}
        self._window_classes(mm, 0, 0, 1 << gaw, cls)
        pad = set()
        for lo, hi in cls["pad"]:
            pad.update(range(lo, hi))
        in_leaf_window = {}
        for lo, hi, w in cls["leaf"]:
            for a in range(lo, hi):
                in_leaf_window[a] = w
        ack_ranges = []
        self._ack_ranges(mm, 0, 0, 1 << gaw, ctx["ack_maps"], ack_ranges)
        acked_addr = set()
        for lo, hi in ack_ranges:
            acked_addr.update(range(lo, hi))
        cmask = (1 << cw) - 1
        hwseed = config["hwseed"]
        K = ratio + 4
        elems = [(i, info.resource.element) for i, info in enumerate(reginfos)]
        if len(reginfos) >= 2:
            stats.probe("two_or_more_registers")
        if ctx["srams"]:
            stats.probe("has_sram")
        if ctx["skipped"]:
            stats.probe("window_refused_during_build", ctx["skipped"])
        stats.state("hierarchy(root,leaves)", f"{config['root']},{min(len(reginfos), 12)},"
                                               f"{len(ctx['srams'])}")

        async def tb(ctx_):
            p = hw.Pins(ctx_)
            state = {"t": 0, "hw_seed": 1}

            def set_hw(seed):
                for j, s in enumerate(ctx["lines"]):
                    p.set(s, cval(hwseed ^ seed, j, 0, 1))
                for j, s in enumerate(ctx["rfields"]):
                    p.set(s, cval(hwseed ^ seed, 1000 + j, 0, len(s)))

            def watch(events):
                for i, el in elems:
                    sp = specs[i]
                    if sp.readable and p.get(el.r_stb):
                        events.append((i, "r", p.get(el.r_data) if sp.width else 0))
                    if sp.writable and p.get(el.w_stb):
                        events.append((i, "w", p.get(el.w_data) if sp.width else 0))

            async def tick(events):
                watch(events)
                state["t"] += 1
                await ctx_.tick()

            async def idle(n, events, cyc_only=False):
                if is_wb:
                    p.set(bus.cyc, int(cyc_only))
                    p.set(bus.stb, 0)
                else:
                    p.set(bus.r_stb, 0)
                    p.set(bus.w_stb, 0)
                for _ in range(n):
                    await tick(events)

            async def access(word, we, sel, dat, gap, cyc_only):
                """One root-bus access of `word` (wb: word address + select mask; csr: one
                granule). Returns (acked, data, events)."""
                events = []
                if state.get("b2b_pending"):
                    # true back-to-back: the previous transfer was acknowledged in the last cycle
                    # and cyc/stb were never released; the new request is presented right away
                    state["b2b_pending"] = False
                    stats.fault("back_to_back")
                elif gap or cyc_only:
                    if cyc_only and is_wb:
                        stats.fault("cyc_without_stb")
                    elif gap:
                        stats.fault("idle_gap")
                    await idle(max(1, gap), events, cyc_only=bool(cyc_only))
                else:
                    stats.fault("back_to_back")
                if events:
                    raise Violation("C01", "leaf-strobe-while-root-bus-idle", state["t"],
                                    f"{[(reginfos[i].path, k) for i, k, _ in events]}")
                acked, data = False, 0
                if is_wb:
                    p.set(bus.adr, word)
                    p.set(bus.we, we)
                    p.set(bus.sel, sel)
                    p.set(bus.dat_w, dat)
                    p.set(bus.cyc, 1)
                    p.set(bus.stb, 1)
                    for c in range(K):
                        if p.get(bus.ack):
                            acked = True
                            data = p.get(bus.dat_r)
                            watch(events)
                            break
                        await tick(events)
                    if acked and state.get("b2b_next"):
                        # hold cyc and stb through the ack cycle; the next request follows with
                        # no idle cycle (late strobes would show up in the next access)
                        state["b2b_next"] = False
                        state["b2b_pending"] = True
                        state["t"] += 1
                        await ctx_.tick()
                        return acked, data, events
                    if not acked:
                        watch(events)
                    p.set(bus.cyc, 0)
                    p.set(bus.stb, 0)
                    state["t"] += 1
                    await ctx_.tick()
                    await tick(events)       # one more cycle: late strobes are spurious too
                else:
                    p.set(bus.addr, word)
                    p.set(bus.r_stb, int(not we))
                    p.set(bus.w_stb, int(we))
                    p.set(bus.w_data, dat)
                    await tick(events)
                    p.set(bus.r_stb, 0)
                    p.set(bus.w_stb, 0)
                    data = p.get(bus.r_data)
                    acked = True
                    await tick(events)
                return acked, data, events

            async def reset_during(word, we, sel, dat, at):
                """Fault: a root access is started and the clock domain is reset `at` cycles into
                it. The access is abandoned (nothing about it is checked); afterwards everything
                must work as from power-up. An SRAM word the abandoned access may have written
                holds either value until it is written again."""
                word %= nwords
                sel &= (1 << ratio) - 1
                dat &= (1 << D) - 1
                if state.get("b2b_pending"):
                    state["b2b_pending"] = False
                    await idle(1, [])
                junk = []
                if is_wb:
                    p.set(bus.adr, word)
                    p.set(bus.we, we)
                    p.set(bus.sel, sel)
                    p.set(bus.dat_w, dat)
                    p.set(bus.cyc, 1)
                    p.set(bus.stb, 1)
                    for c in range(at % K):
                        if p.get(bus.ack):
                            break
                        await tick(junk)
                else:
                    p.set(bus.addr, word)
                    p.set(bus.r_stb, int(not we))
                    p.set(bus.w_stb, int(we))
                    p.set(bus.w_data, dat & cmask)
                p.set(rst, 1)
                await tick(junk)
                p.set(rst, 0)
                await idle(2, junk)
                rf._break()
                if we:
                    for a in ([word * ratio + k for k in range(ratio)] if is_wb else [word]):
                        if a in shadow:
                            shadow[a] = None
                stats.fault("domain_reset_mid_access")
                hist.rec(state["t"], "reset", word)

            async def do_word(word, we, sel, dat, gap=0, cyc_only=0):
                word %= nwords
                sel &= (1 << ratio) - 1
                dat &= (1 << D) - 1
                granules = [word * ratio + k for k in range(ratio) if (sel >> k) & 1] \
                    if is_wb else [word]
                if any(a in pad for a in range(word * ratio, word * ratio + ratio)):
                    # the map leaves alignment padding unassigned (decode_address() is None), so
                    # by C01 it must behave like any other unassigned address
                    stats.probe("word_in_alignment_padding_checked")
                if is_wb and gap == 0 and not cyc_only and (mix(hwseed + word * 7 + we) & 1):
                    state["b2b_next"] = True      # this access will be followed without a gap
                if is_wb:
                    if sel == 0:
                        stats.fault("zero_select")
                    elif sel != (1 << ratio) - 1:
                        stats.fault("partial_select")
                acked, data, events = await access(word, we, sel, dat, gap, cyc_only)
                # ---- software view: predicted leaf events, in order ----------------------------
                expected = []
                lane_expect = {}
                ev_iter = list(events)
                pos = 0
                for a in granules:
                    k = a - word * ratio
                    lane = (dat >> (k * cw)) & cmask if is_wb else dat & cmask
                    res = mm.decode_address(a)
                    reg_i = None
                    if res is not None and hasattr(res, "element"):
                        info = mm.find_resource(res)
                        hits = [i for i, ri in enumerate(reginfos) if ri.resource is res]
                        if not hits:
                            raise Violation("C01", "memory-map-queries-disagree", state["t"],
                                            f"decode_address({a:#x}) returns {tuple(map(tuple, info.path))} "
                                            f"which all_resources() does not list")
                        reg_i = hits[0]
                        if (info.start, info.end) != (specs[reg_i].start, specs[reg_i].end):
                            raise Violation("C01", "find_resource-disagrees-with-all_resources",
                                            state["t"], f"{info.path}")
                    # the observed r_stb event of this granule (if any) supplies the snapshot
                    r_vals = {}
                    if reg_i is not None and not we and specs[reg_i].readable and \
                            a == specs[reg_i].start:
                        expected.append((reg_i, "r"))
                        for (i, kind, v) in ev_iter:
                            if i == reg_i and kind == "r":
                                r_vals[reg_i] = v
                                break
                    for sp in specs:
                        r_vals.setdefault(sp.idx, 0)
                    e = rf.step(a, int(not we), int(we), lane, r_vals)
                    if reg_i is not None and we and specs[reg_i].writable and \
                            a == specs[reg_i].end - 1:
                        expected.append((reg_i, "w", e.next_w.get(reg_i)))
                    if not we and e.next_r[0] == "exact":
                        lane_expect[k] = e.next_r[1]
                    if res is None:
                        stats.fault("unassigned_address")
                    sd = ram_of.get(id(res)) if res is not None else None
                    if sd is not None and a not in shadow:
                        raise Violation("C01", "memory-map-queries-disagree", state["t"],
                                        f"decode_address({a:#x}) returns a memory that "
                                        f"all_resources() does not report at that address")
                    if sd is not None:
                        if we:
                            if sd["writable"]:
                                shadow[a] = lane
                            else:
                                stats.fault("write_to_read_only_sram")
                        elif shadow[a] is not None:
                            lane_expect[k] = shadow[a]
                        else:
                            lane_expect.pop(k, None)      # value unknown since the reset
                # ---- hardware view must equal it (iff) -------------------------------------------
                got = [(i, kind) for (i, kind, v) in events]
                want = [(x[0], x[1]) for x in expected]
                stats.checks += 1
                if got != want:
                    spurious = [g for g in got if g not in want]
                    cls_ = "leaf-strobe-the-map-does-not-predict" if spurious else \
                        "leaf-the-map-decodes-to-is-not-reached"
                    raise Violation("C01", cls_, state["t"],
                                    f"root word {word:#x} sel {sel:#b} we={we}: leaf events "
                                    f"{[(tuple(map(tuple, reginfos[i].path)), k) for i, k in got]} "
                                    f"but the memory map predicts "
                                    f"{[(tuple(map(tuple, reginfos[i].path)), k) for i, k in want]}")
                for x, (i, kind, v) in zip(expected, events):
                    if kind == "w" and x[2] is not None:
                        sp = specs[i]
                        for ck, cv in sorted(x[2].items()):
                            lim = max(0, min(cw, sp.width - ck * cw))
                            stats.checks += 1
                            if (v >> (ck * cw)) & ((1 << lim) - 1) != cv & ((1 << lim) - 1):
                                raise Violation("C01", "write-reaches-wrong-offset", state["t"],
                                                f"register {tuple(map(tuple, reginfos[i].path))} "
                                                f"chunk {ck}: element.w_data slice "
                                                f"{(v >> (ck * cw)) & ((1 << lim) - 1):#x}, bus "
                                                f"wrote {cv & ((1 << lim) - 1):#x}")
                        stats.work += 1
                # ---- acknowledge / read data ---------------------------------------------------
                if is_wb:
                    a0 = word * ratio
                    n_ack = sum(1 for a in range(a0, a0 + ratio) if a in acked_addr)
                    stats.checks += 1
                    if n_ack == ratio and not acked:
                        raise Violation("C01", "assigned-window-does-not-acknowledge",
                                        state["t"], f"word {word:#x}")
                    if n_ack == 0:
                        if acked:
                            raise Violation("C01", "unassigned-address-acknowledged", state["t"],
                                            f"word {word:#x} lies in no window but was acknowledged")
                        stats.probe("unacknowledged_access_outside_windows")
                if acked and not we:
                    for k, v in sorted(lane_expect.items()):
                        gotl = (data >> (k * cw)) & cmask if is_wb else data & cmask
                        stats.checks += 1
                        if gotl != v:
                            a = word * ratio + k
                            res = mm.decode_address(a)
                            cls_ = "sram-word-at-wrong-offset" if (res is not None and
                                                                   id(res) in ram_of) else \
                                ("unassigned-read-not-zero" if res is None else
                                 "read-reaches-wrong-offset")
                            raise Violation("C01", cls_, state["t"],
                                            f"granule {a:#x}: read {gotl:#x}, expected {v:#x}")
                    if lane_expect:
                        stats.work += 1
                hist.rec(state["t"], word, we, sel, acked, data if not we else None, got)

            # ---- workload ------------------------------------------------------------------------
            set_hw(1)
            await idle(2, [])
            edge = sorted({lo for lo, hi, _ in cls["leaf"]} | {hi - 1 for lo, hi, _ in cls["leaf"]} |
                          {(lo - 1) % (1 << gaw) for lo, hi, _ in cls["leaf"]} |
                          {hi % (1 << gaw) for lo, hi, _ in cls["leaf"]})
            for op in ops:
                k = op.get("k")
                if k == "hw":
                    set_hw(int(op.get("seed", 0)))
                    stats.fault("hardware_toggle_between_transactions")
                    ev = []
                    await idle(1, ev)
                    if ev:
                        raise Violation("C01", "leaf-strobe-while-root-bus-idle", state["t"], "")
                elif k == "word":
                    a = int(op.get("addr", 0))
                    if op.get("near") is not None and edge:
                        a = edge[int(op["near"]) % len(edge)] // ratio
                        stats.fault("window_edge_address")
                    await do_word(a, int(op.get("we", 0)) & 1, int(op.get("sel", 0)),
                                  int(op.get("dat", 0)), int(op.get("gap", 0)) % 3,
                                  int(op.get("cyc_only", 0)) & 1)
                elif k == "reset":
                    a = int(op.get("addr", 0))
                    if op.get("near") is not None and edge:
                        a = edge[int(op["near"]) % len(edge)] // ratio
                    await reset_during(a, int(op.get("we", 0)) & 1, int(op.get("sel", 0)),
                                       int(op.get("dat", 0)), int(op.get("at", 0)))
                elif k == "regtxn" and specs:
                    sp = specs[int(op.get("reg", 0)) % len(specs)]
                    size = sp.end - sp.start
                    n = size if op.get("n") is None else 1 + int(op["n"]) % size
                    we = int(op.get("mode") == "w")
                    data = op.get("data") or []
                    for c in range(n):
                        a = sp.start + c
                        d = (int(data[c]) if c < len(data) else 0) & cmask
                        await do_word(a // ratio, we, 1 << (a % ratio), d << ((a % ratio) * cw),
                                      int(op.get("gap", 0)) % 3)
                    if n < size:
                        stats.fault("aborted_register_transaction")
            # ---- sweep: EVERY granule of the root bus, seeded order -------------------------------
            order = sorted(range(1 << gaw), key=lambda a: mix(hwseed * 65537 + a))
            for a in order:
                we = cval(hwseed, 31337, a, 1)
                await do_word(a // ratio, we, 1 << (a % ratio),
                              cval(hwseed, 4242, a, cw) << ((a % ratio) * cw))
            # ---- final read sweep of every SRAM granule through the root bus ---------------------
            for a in sorted(shadow):
                await do_word(a // ratio, 0, 1 << (a % ratio), 0)
            stats.cycles += state["t"]
            stats.probe("root_granules_swept", 1 << gaw)

        hw.run_tb(sim, tb)

    # ------------------------------------------------------------------------------------------
    def simplify_op(self, op):
        if op.get("gap"):
            yield dict(op, gap=0)
        if op.get("cyc_only"):
            yield dict(op, cyc_only=0)

    def shrink_config(self, config, ops):
        if config["root"] == "wb":
            items = config["items"]
            for j in range(len(items)):
                yield dict(config, items=items[:j] + items[j + 1:]), ops
            for j, it in enumerate(items):
                if it["t"] == "bridge":
                    for t2 in self._shrink_tree(it["tree"]):
                        yield dict(config, items=items[:j] + [dict(it, tree=t2)] + items[j + 1:]), ops
            if config["al"]:
                yield dict(config, al=0), ops
        else:
            for t2 in self._shrink_tree(config["tree"]):
                yield dict(config, tree=t2), ops

    def _shrink_tree(self, tree):
        subs = tree["subs"]
        for j in range(len(subs)):
            if len(subs) > 1:
                yield dict(tree, subs=subs[:j] + subs[j + 1:])
        for j, sc in enumerate(subs):
            if sc["node"]["t"] == "dec":
                for n2 in self._shrink_tree(sc["node"]):
                    yield dict(tree, subs=subs[:j] + [dict(sc, node=n2)] + subs[j + 1:])
            elif sc["node"]["t"] == "regs" and len(sc["node"]["regs"]) > 1:
                n2 = dict(sc["node"], regs=sc["node"]["regs"][:-1])
                yield dict(tree, subs=subs[:j] + [dict(sc, node=n2)] + subs[j + 1:])
        if tree["al"]:
            yield dict(tree, al=0)

    def sample(self, config, ops):
        return {"config": config, "first_ops": ops[:4], "n_ops": len(ops)}


WORLD = SocWorld()
