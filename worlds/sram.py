"""World `sram` — C15: WishboneSRAM behaves as a memory with a one-cycle, single acknowledge.

System: the real WishboneSRAM (amaranth.lib.memory inside). Requester: byzantine per-cycle agent
(cyc/stb alone, stb held through ack, address/select changing every cycle). Contents are observed
through the bus only (interleaved reads and a final sweep of every word)."""
from simkit.core import World, Violation
from simkit import hw


class SramWorld(World):
    name = "sram"
    properties = ("C15",)
    real_components = ("wishbone.sram.WishboneSRAM", "amaranth.lib.memory.Memory (dependency)")
    stub_components = ("Wishbone requester (seeded byzantine agent)",)
    fault_kinds = ("stb_held_through_ack", "cyc_alone", "stb_alone", "request_changes_in_ack_cycle",
                   "partial_select", "zero_select", "write_to_read_only",
                   "init_is_one_shot_iterable", "init_reassigned", "init_patched_in_place",
                   "second_instance_in_process", "domain_reset")
    assumptions = (
        "a reset of the clock domain returns the component to its initial state (the state the "
        "property calls initial is the state after reset, as for every Amaranth register)",
        "Amaranth's Python RTL simulator executes the elaborated netlist (including its memory "
        "primitive) faithfully",
        "a transfer is 'presented' in a cycle with cyc and stb high and ack low; a request still "
        "held in the cycle after its ack cycle is a new transfer",
    )

    def runs(self, prop, tier):
        return {"quick": 4000, "thorough": 50000}[tier]

    def gen_config(self, rng, prop):
        dw = rng.choice([8, 16, 32, 64])
        g = rng.choice([x for x in (8, 16, 32, 64) if x <= dw])
        size = rng.choice([s for s in (1, 2, 4, 8, 16, 32, 64, 256, 1024) if s * g >= dw or rng.chance(0.1)])
        depth = max(1, size * g // dw)
        cfg = {"dw": dw, "g": g, "size": size, "writable": int(rng.chance(0.75)),
               "init": [rng.bits(dw) for _ in range(depth if rng.chance(0.8) else depth // 2)],
               "init_as": rng.choice(["list", "list", "tuple", "iter", "gen"])}
        if rng.chance(0.15):
            # the image is replaced through the `init` attribute before the design is elaborated
            cfg["reinit"] = [rng.bits(dw) for _ in range(rng.range(0, depth))]
        cfg["decoy"] = int(rng.chance(0.1))
        cfg["omit"] = int(rng.chance(0.3))
        if rng.chance(0.15):
            cfg["patch"] = [[rng.below(depth), rng.bits(dw)] for _ in range(rng.range(1, 3))]
        return cfg

    def gen_ops(self, rng, config, prop):
        dw, g = config["dw"], config["g"]
        depth = max(1, config["size"] * g // dw)
        nsel = dw // g
        ops = []
        p_cyc = rng.choice([0.6, 0.9, 1.0])
        p_stb = rng.choice([0.5, 0.8, 1.0])
        p_hold = rng.choice([0.0, 0.3, 0.6])
        hot = [rng.below(depth) for _ in range(3)]
        prev = None
        p_rst = rng.choice([0, 0, 0, 0.02])
        # derived stream (the other draws of the run stay as they were): in a third of the runs the
        # written words come from a pool of two or three values, some taken from the initial image,
        # so that "the word being written equals what another row / the read port holds" happens
        vr = rng.sub("vals")
        p_pool = vr.choice([0, 0, 0.7])
        pool = [vr.bits(dw) for _ in range(vr.range(2, 3))]
        if config.get("init") and vr.chance(0.5):
            pool[0] = int(vr.choice(list(config["init"]))) & ((1 << dw) - 1)
        for t in range(rng.range(60, 200)):
            if prev is not None and rng.chance(p_hold):
                op = dict(prev)
                if rng.chance(0.3):
                    op["sel"] = rng.bits(nsel)      # the same word again, other lanes
            else:
                selk = rng.below(4)
                op = {"cyc": int(rng.chance(p_cyc)), "stb": int(rng.chance(p_stb)),
                      "we": rng.below(2),
                      "adr": rng.choice(hot) if rng.chance(0.6) else rng.below(depth),
                      "sel": (1 << nsel) - 1 if selk < 2 else rng.bits(nsel), "dat": rng.bits(dw)}
            if p_pool and vr.chance(p_pool):
                op = dict(op, dat=vr.choice(pool))
            if rng.chance(p_rst):
                op = dict(op, rst=1)
            ops.append(op)
            prev = {k_: v_ for k_, v_ in op.items() if k_ != "rst"}
        return ops

    def run(self, config, ops, props, stats, hist):
        from amaranth_soc.wishbone.sram import WishboneSRAM
        dw, g, size, wr = config["dw"], config["g"], config["size"], bool(config["writable"])
        image = list(config["init"])
        depth_cfg = max(0, size * g // dw)
        how = config.get("init_as", "list")
        arg = {"list": lambda: list(image), "tuple": lambda: tuple(image),
               "iter": lambda: iter(list(image)), "gen": lambda: (v for v in image)}[how]()
        in_domain = size >= 2 and size & (size - 1) == 0 and g <= dw and size * g >= dw and \
            len(image) <= size * g // dw
        ctor = (lambda *a_, **k_: hw.must_accept("C15", f"WishboneSRAM(size={size}, data_width={dw}, "
                                                 f"granularity={g})", *a_, **k_)) \
            if in_domain else hw.construct
        dut = ctor(WishboneSRAM, **hw.spelled(config.get("omit") and how in ("list", "tuple"),
                                              {"granularity": dw, "writable": True, "init": [],
                                               }, size=size, data_width=dw, granularity=g,
                                              writable=wr, init=arg))
        if how in ("iter", "gen"):
            stats.fault("init_is_one_shot_iterable")
        if config.get("reinit") is not None:
            image = list(config["reinit"])
            try:
                dut.init = list(image)
            except (ValueError, TypeError) as e:
                from simkit.core import Refused
                raise Refused(f"init setter: {e}")
            stats.fault("init_reassigned")
        for k_, v_ in (config.get("patch") or []):
            if depth_cfg:
                k_ %= depth_cfg
                try:
                    dut.init[k_] = v_ & ((1 << dw) - 1)  # item assignment on the reported image
                except IndexError as e:
                    raise Violation("C15", "init-image-does-not-cover-every-row", 0,
                                    f"init[{k_}] = ... on a memory of {depth_cfg} rows: {e}")
                image += [0] * (k_ + 1 - len(image))
                image[k_] = v_ & ((1 << dw) - 1)
                stats.fault("init_patched_in_place")
        if config.get("decoy"):
            try:
                WishboneSRAM(size=size, data_width=dw, granularity=g, writable=not wr, init=[7])
            except (ValueError, TypeError):
                pass
            stats.fault("second_instance_in_process")
        wb = dut.wb_bus
        depth = size * g // dw
        nsel = dw // g
        mem = image + [0] * (depth - len(image))
        top, rst = hw.make_top_with_reset(dut)
        sim = hw.build_sim(top)
        sweep = []
        for a in range(depth):
            sweep += [{"cyc": 1, "stb": 1, "we": 0, "adr": a, "sel": (1 << nsel) - 1, "dat": 0,
                       "sweep": 1},
                      {"cyc": 0, "stb": 0, "we": 0, "adr": a, "sel": 0, "dat": 0, "sweep": 1}]
        seq = list(ops) + [{"cyc": 0, "stb": 0}, {"cyc": 0, "stb": 0}] + sweep

        async def tb(ctx):
            p = hw.Pins(ctx)
            exp_ack = 0
            exp_dat = None
            prev_vec = None
            last_write = None
            for t, op in enumerate(seq):
                cyc, stb, we = int(op.get("cyc", 0)) & 1, int(op.get("stb", 0)) & 1, \
                    int(op.get("we", 0)) & 1
                adr = int(op.get("adr", 0)) % depth
                sel = int(op.get("sel", 0)) & ((1 << nsel) - 1)
                dat = int(op.get("dat", 0)) & ((1 << dw) - 1)
                p.set(wb.cyc, cyc)
                p.set(wb.stb, stb)
                p.set(wb.we, we)
                p.set(wb.sel, sel)
                p.set(wb.dat_w, dat)
                if len(wb.adr):
                    p.set(wb.adr, adr)
                in_reset = int(op.get("rst") or 0) & 1
                p.set(rst, in_reset)
                ack = p.get(wb.ack)
                stats.checks += 1
                if ack != exp_ack:
                    cls = "ack-missing-or-late" if exp_ack else \
                        ("ack-spontaneous" if not prev_acc_any(prev_vec) else "ack-repeated")
                    raise Violation("C15", cls, t, f"ack={ack} expected {exp_ack}")
                d = p.get(wb.dat_r)
                if ack and exp_dat is not None:
                    stats.checks += 1
                    if exp_dat[1] is not None and d != exp_dat[1]:
                        cls = "final-sweep-contents-wrong" if op.get("sweep") or \
                            seq[t - 1].get("sweep") else "read-data-wrong"
                        raise Violation("C15", cls, t,
                                        f"word {exp_dat[0]}: dat_r={d:#x} expected {exp_dat[1]:#x}")
                    stats.work += 1
                vec = (cyc, stb, we, adr, sel, dat)
                if ack:
                    if cyc and stb:
                        stats.fault("stb_held_through_ack")
                    if prev_vec is not None and vec != prev_vec:
                        stats.fault("request_changes_in_ack_cycle")
                if cyc and not stb:
                    stats.fault("cyc_alone")
                if stb and not cyc:
                    stats.fault("stb_alone")
                acc = bool(cyc and stb and not ack)
                exp_ack = int(acc)
                exp_dat = None
                if acc:
                    if we:
                        if sel == 0:
                            stats.fault("zero_select")
                        elif sel != (1 << nsel) - 1:
                            stats.fault("partial_select")
                        if wr and in_reset and sel:
                            # whether a write landing on the reset edge is performed is not
                            # stated: the word is unknown until it is written in full again
                            mem[adr] = None
                        elif wr:
                            if sel == (1 << nsel) - 1:
                                mem[adr] = dat
                            elif mem[adr] is not None:
                                for k in range(nsel):
                                    if (sel >> k) & 1:
                                        m = ((1 << g) - 1) << (k * g)
                                        mem[adr] = (mem[adr] & ~m) | (dat & m)
                            last_write = adr
                            stats.work += 1
                        else:
                            stats.fault("write_to_read_only")
                    else:
                        exp_dat = (adr, mem[adr])
                        if last_write == adr:
                            stats.probe("read_of_last_written_word")
                        if adr == depth - 1:
                            stats.probe("last_word")
                if in_reset:
                    # fault: the domain is reset at this edge; the pending acknowledge is gone and
                    # the memory keeps its contents
                    exp_ack = 0
                    exp_dat = None
                    stats.fault("domain_reset")
                hist.rec(t, ack, d if ack else None)
                prev_vec = vec
                await ctx.tick()
            stats.cycles += len(seq)

        def prev_acc_any(v):
            return v is not None and v[0] and v[1]

        hw.run_tb(sim, tb)

    def simplify_op(self, op):
        if op.get("dat") not in (0, 1, None):
            yield dict(op, dat=1)
        if op.get("cyc") and not op.get("stb"):
            yield dict(op, cyc=0)
        if op.get("rst"):
            yield dict(op, rst=0)

    def shrink_config(self, config, ops):
        if config["size"] > 2 and (config["size"] // 2) * config["g"] >= config["dw"]:
            yield dict(config, size=config["size"] // 2,
                       init=config["init"][:max(1, (config["size"] // 2) * config["g"] // config["dw"])]), ops
        if any(config["init"]):
            yield dict(config, init=[]), ops
        if config.get("init_as", "list") != "list":
            yield dict(config, init_as="list"), ops

    def sample(self, config, ops):
        c = dict(config, init=config["init"][:4], reinit=(config.get("reinit") or [])[:4])
        return {"config": c, "first_ops": ops[:6], "n_ops": len(ops)}


WORLD = SramWorld()
