"""World `wb2csr` — C10: WishboneCSRBridge performs each transfer exactly once, in order, on time.

System: the real WishboneCSRBridge over a stub CSR target that returns a unique word the cycle
after each read strobe and zero otherwise. Initiator: protocol-abiding closed-loop agent (holds
the request until acknowledged) with faults: every select mask incl. 0, back-to-back transfers
(stb held through and after the ack), spaced transfers, CYC without STB, STB without CYC and
request-signal churn while idle. Oracle: a (ratio+2)-position sequencer model."""
from simkit.core import World, Violation
from simkit import hw


def log2(x):
    return x.bit_length() - 1


class Wb2CsrWorld(World):
    name = "wb2csr"
    properties = ("C10",)
    real_components = ("csr.wishbone.WishboneCSRBridge",)
    stub_components = ("CSR target (seeded agent: unique read word one cycle after r_stb)",
                       "Wishbone initiator (seeded closed-loop agent)")
    fault_kinds = ("select_mask_partial", "select_mask_zero", "back_to_back", "spaced",
                   "cyc_without_stb", "stb_without_cyc", "idle_signal_churn",
                   "second_instance_in_process", "release_in_ack_cycle", "domain_reset_mid_transfer",
                   "long_idle_spell")
    real_components = ("csr.wishbone.WishboneCSRBridge", "csr.Multiplexer (30 % of the runs)")
    assumptions = (
        "a reset of the clock domain returns the component to its initial state (the state the "
        "property calls initial is the state after reset, as for every Amaranth register)",
        "Amaranth's Python RTL simulator executes the elaborated netlist faithfully",
        "the Wishbone initiator holds cyc, stb and all request signals stable from the start of a "
        "transfer until the cycle in which it sees ack (protocol-abiding, as the property assumes)",
        "register atomicity behind a real multiplexer is decided in C01/C04/C05; here it follows "
        "from exactly-once, in-order, consecutive-cycle strobes checked against the stub target",
    )

    def runs(self, prop, tier):
        return {"quick": 5000, "thorough": 60000}[tier]

    def state_targets(self, prop, states):
        out = {}
        k = "sequencer(ratio,pos,stb,b2b)"
        if k in states:
            for ratio in (1, 2, 4, 8):
                got = sum(1 for s in states[k] if s.startswith(f"({ratio},"))
                out[f"ratio={ratio}"] = {"reached": got, "feasible": (ratio + 2) * 2 + 1}
        return out

    def gen_config(self, rng, prop):
        cw = rng.choice([8, 16, 32, 64])
        ww = rng.choice([w for w in (8, 16, 32, 64) if w >= cw])
        ratio = ww // cw
        caw = rng.range(max(1, log2(ratio)) if not rng.chance(0.05) else 1,
                        8 if not rng.chance(0.1) else 12)
        if rng.chance(0.04):
            caw = rng.range(17, 40)      # far more address bits than data bits
        cfg = {"cw": cw, "ww": ww, "caw": caw, "decoy": int(rng.chance(0.1)),
               "decoy_first": int(rng.chance(0.5)), "target": "stub"}
        if rng.chance(0.3) and caw <= 8:
            # the CSR side is a real multiplexer over register stubs, packed so that several
            # registers share one Wishbone word and some span two
            cfg["target"] = "mux"
            cfg["regs"] = [{"w": rng.choice([1, cw - 1, cw, cw, cw + 1, 2 * cw, 3 * cw]),
                            "acc": rng.choice(["r", "w", "rw", "rw"]),
                            "skip": rng.choice([0, 0, 0, 1, 2])}
                           for _ in range(rng.range(1, 7))]
            cfg["hwseed"] = rng.bits(32)
        return cfg

    def gen_ops(self, rng, config, prop):
        cw, ww, caw = config["cw"], config["ww"], config["caw"]
        ratio = ww // cw
        waw = max(0, caw - log2(ratio))
        ops = []
        for _ in range(rng.range(8, 30)):
            selkind = rng.below(10)
            sel = (1 << ratio) - 1 if selkind < 4 else (0 if selkind == 4 else rng.bits(ratio))
            ops.append({"adr": rng.bits(waw), "we": rng.below(2), "sel": sel, "dat": rng.bits(ww),
                        "gap": rng.choice([0, 0, 0, 1, 2, 3]) if not rng.chance(0.004)
                        else rng.range(240, 300),          # a long quiet spell
                        "gap_cyc": rng.below(4), "gap_stb_only": int(rng.chance(0.15)),
                        "churn": rng.bits(32),
                        # asynchronous initiator: drops cyc and/or stb in the very cycle it sees
                        # the (registered) ack; 0 = keeps them up until the clock edge
                        "rel": rng.choice([0, 0, 0, 1, 2, 3]),
                        # domain reset landing at this sequencer position (None = no reset)
                        "rst": rng.below(ratio + 2) if rng.chance(0.04) else None,
                        "rd": [rng.bits(cw) | 1 for _ in range(ratio)]})
        return ops

    def run(self, config, ops, props, stats, hist):
        if config.get("target") == "mux":
            return self.run_mux(config, ops, stats, hist)
        return self.run_stub(config, ops, props, stats, hist)

    def run_mux(self, config, ops, stats, hist):
        """The bridge in front of a real csr.Multiplexer: per transfer, the registers see exactly
        the strobes the transfer implies (first chunk read / last chunk written among the selected
        granules), once, no later than the acknowledge, with their own slice of the write data;
        a register that lies inside the word reads back as one snapshot; nothing strobes between
        transfers."""
        from amaranth_soc import csr
        from amaranth_soc.csr.wishbone import WishboneCSRBridge
        from amaranth_soc.memory import MemoryMap
        from simkit.rng import cval
        cw, ww, caw = config["cw"], config["ww"], config["caw"]
        ratio = ww // cw
        mm = MemoryMap(addr_width=caw, data_width=cw)
        regs = []
        cursor = 0
        for i, rc in enumerate(config["regs"]):
            reg = hw.MockReg(int(rc["w"]), rc["acc"])
            try:
                s_, e_ = mm.add_resource(reg, name=(f"r{i}",), addr=cursor + int(rc.get("skip") or 0),
                                         size=max(1, (int(rc["w"]) + cw - 1) // cw))
            except ValueError:
                continue
            cursor = e_
            regs.append((reg, s_, e_, int(rc["w"]), rc["acc"]))
        if not regs:
            raise hw.Refused("no register fits")
        mux = csr.Multiplexer(mm)
        dut = hw.must_accept("C10", f"WishboneCSRBridge(multiplexer {caw}x{cw}, data_width={ww})",
                             WishboneCSRBridge, mux.bus, data_width=ww) \
            if caw >= max(1, log2(ratio)) else hw.construct(WishboneCSRBridge, mux.bus, data_width=ww)
        wb = dut.wb_bus
        top, rst = hw.make_top_with_reset(dut, mux)
        sim = hw.build_sim(top)
        waw = len(wb.adr)
        cmask = (1 << cw) - 1
        hwseed = int(config.get("hwseed", 0))
        first_at = {s_: j for j, (r, s_, e_, w, a) in enumerate(regs) if "r" in a}
        last_at = {e_ - 1: j for j, (r, s_, e_, w, a) in enumerate(regs) if "w" in a}
        stats.probe("real_multiplexer_target")
        if any(s_ // ratio != (e_ - 1) // ratio for r, s_, e_, w, a in regs):
            stats.probe("register_spans_two_wishbone_words")

        async def tb(ctx):
            p = hw.Pins(ctx)
            t = 0

            def drive_regs():
                for j, (r, s_, e_, w, a) in enumerate(regs):
                    if "r" in a and w:
                        p.set(r.element.r_data, cval(hwseed, j, t, w))

            def watch(events):
                for j, (r, s_, e_, w, a) in enumerate(regs):
                    if "r" in a and p.get(r.element.r_stb):
                        events.append((j, "r", p.get(r.element.r_data) if w else 0, t))
                    if "w" in a and p.get(r.element.w_stb):
                        events.append((j, "w", p.get(r.element.w_data) if w else 0, t))

            for op in ops:
                adr = (int(op.get("adr", 0)) & ((1 << waw) - 1)) if waw else 0
                sel = int(op.get("sel", 0)) & ((1 << ratio) - 1)
                dat = int(op.get("dat", 0)) & ((1 << ww) - 1)
                we = int(op.get("we", 0)) & 1
                if sel == 0:
                    stats.fault("select_mask_zero")
                elif sel != (1 << ratio) - 1:
                    stats.fault("select_mask_partial")
                stats.fault("spaced")
                # ---- idle gap: nothing may strobe -------------------------------------------
                p.set(wb.cyc, 0)
                p.set(wb.stb, 0)
                idle_ev = []
                g_ = int(op.get("gap", 0))
                if g_ >= 200:
                    stats.fault("long_idle_spell")
                for _ in range(g_ if g_ >= 200 else min(g_, 3)):
                    drive_regs()
                    watch(idle_ev)
                    t += 1
                    await ctx.tick()
                # ---- the transfer ------------------------------------------------------------
                if waw:
                    p.set(wb.adr, adr)
                p.set(wb.we, we)
                p.set(wb.sel, sel)
                p.set(wb.dat_w, dat)
                p.set(wb.cyc, 1)
                p.set(wb.stb, 1)
                events = []
                acked_at = None
                data = 0
                for c in range(ratio + 4):
                    drive_regs()
                    watch(events)
                    if p.get(wb.ack):
                        acked_at = c
                        data = p.get(wb.dat_r)
                        break
                    t += 1
                    await ctx.tick()
                stats.checks += 1
                if acked_at != ratio + 1:
                    raise Violation("C10", "ack-late-or-missing" if acked_at is None or
                                    acked_at > ratio + 1 else "ack-early-or-repeated", t,
                                    f"ack after {acked_at} cycles, due after {ratio + 1}")
                rel = int(op.get("rel") or 0) & 3
                if rel:
                    p.set(wb.cyc, 0 if rel in (1, 3) else 1)
                    p.set(wb.stb, 0 if rel in (1, 2) else 1)
                    stats.fault("release_in_ack_cycle")
                t += 1
                await ctx.tick()
                p.set(wb.cyc, 0)
                p.set(wb.stb, 0)
                drive_regs()
                late = []
                watch(late)
                if idle_ev or late:
                    ev = (idle_ev or late)[0]
                    raise Violation("C10", "register-strobe-outside-transfer", t,
                                    f"register r{ev[0]} saw {'r_stb' if ev[1] == 'r' else 'w_stb'} "
                                    f"while no transfer was in progress")
                # ---- what this transfer implies ---------------------------------------------
                want = []
                for k in range(ratio):
                    if not (sel >> k) & 1:
                        continue
                    a = (adr * ratio + k) & ((1 << caw) - 1)
                    if not we and a in first_at:
                        want.append((first_at[a], "r"))
                    if we and a in last_at:
                        want.append((last_at[a], "w"))
                got = [(j, kind) for j, kind, v, tt in events]
                stats.checks += 1
                if sorted(got) != sorted(want):
                    extra = [g for g in got if g not in want]
                    raise Violation("C10", "register-strobed-twice-or-unexpectedly" if extra else
                                    "write-side-effect-not-done-by-the-acknowledge", t,
                                    f"word {adr:#x} sel {sel:#b} we={we}: registers saw "
                                    f"{[(f'r{j}', k_) for j, k_ in got]}, the transfer implies "
                                    f"{[(f'r{j}', k_) for j, k_ in want]}")
                for j, kind, v, tt in events:
                    r, s_, e_, w, a = regs[j]
                    inside = s_ // ratio == adr and (e_ - 1) // ratio == adr and \
                        all((sel >> (x - adr * ratio)) & 1 for x in range(s_, e_))
                    if not inside or not w:
                        continue
                    lo = (s_ - adr * ratio) * cw
                    if kind == "w":
                        stats.checks += 1
                        exp = (dat >> lo) & ((1 << w) - 1)
                        if v != exp:
                            raise Violation("C10", "register-written-with-wrong-slice", t,
                                            f"r{j} ({w} bits at granule {s_ - adr * ratio}): "
                                            f"w_data={v:#x}, its slice of dat_w is {exp:#x}")
                        stats.work += 1
                    else:
                        stats.checks += 1
                        n_ch = (w + cw - 1) // cw
                        got_v = (data >> lo) & ((1 << (n_ch * cw)) - 1)
                        if got_v != v:
                            raise Violation("C10", "register-read-not-atomic-or-wrong-lane", t,
                                            f"r{j}: acknowledged lanes carry {got_v:#x}, the value "
                                            f"presented when its first chunk was read was {v:#x}")
                        stats.work += 1
                stats.state("sequencer(ratio,pos,stb,b2b)", f"({ratio},mux,{we},{int(bool(sel))})")
                hist.rec(t, adr, sel, we, got, data if not we else None)
            stats.cycles += t

        hw.run_tb(sim, tb)

    def run_stub(self, config, ops, props, stats, hist):
        from amaranth_soc import csr
        from amaranth_soc.csr.wishbone import WishboneCSRBridge
        from amaranth_soc.memory import MemoryMap
        from simkit.rng import mix
        cw, ww, caw = config["cw"], config["ww"], config["caw"]
        ratio = ww // cw
        cbus = hw.construct(csr.Interface, addr_width=caw, data_width=cw, path=("csr",))
        cbus.memory_map = MemoryMap(addr_width=caw, data_width=cw)
        if caw >= max(1, log2(ratio)):
            dut = hw.must_accept("C10", f"WishboneCSRBridge(csr {caw}x{cw}, data_width={ww})",
                                 WishboneCSRBridge, cbus, data_width=ww)
        else:
            dut = hw.construct(WishboneCSRBridge, cbus, data_width=ww)
        if config.get("decoy"):
            # another bridge of the same ratio but another CSR width is built afterwards
            cw2 = 16 if cw == 8 else 8
            c2 = csr.Interface(addr_width=caw, data_width=cw2, path=("csr2",))
            c2.memory_map = MemoryMap(addr_width=caw, data_width=cw2)
            try:
                hw.elaborate_once(WishboneCSRBridge(c2, data_width=cw2 * ratio))
            except (ValueError, TypeError):
                pass
            stats.fault("second_instance_in_process")
        wb = dut.wb_bus
        top, rst = hw.make_top_with_reset(dut)
        sim = hw.build_sim(top)
        waw = len(wb.adr)
        cmask = (1 << cw) - 1

        async def tb(ctx):
            p = hw.Pins(ctx)
            q = list(ops)
            cur = None          # current transfer op
            pos = None          # sequencer model position (cycles since start), None = idle
            gap = 0
            gap_op = None
            pend_r = None
            lanes = {}
            t = 0
            acks_for_cur = 0
            b2b = 0
            cap = 40 + len(ops) * (ratio + 8) + sum(int(o.get("gap") or 0) for o in ops
                                                      if int(o.get("gap") or 0) >= 200)
            while t < cap:
                # ---- initiator agent -------------------------------------------------------
                if cur is None and gap <= 0:
                    if not q:
                        break
                    cur = q.pop(0)
                    cur = dict(cur)
                    cur["adr"] = int(cur.get("adr", 0)) & ((1 << waw) - 1) if waw else 0
                    cur["sel"] = int(cur.get("sel", 0)) & ((1 << ratio) - 1)
                    cur["dat"] = int(cur.get("dat", 0)) & ((1 << ww) - 1)
                    cur["we"] = int(cur.get("we", 0)) & 1
                    acks_for_cur = 0
                    pos = 0
                    lanes = {}
                    if cur["sel"] == 0:
                        stats.fault("select_mask_zero")
                    elif cur["sel"] != (1 << ratio) - 1:
                        stats.fault("select_mask_partial")
                rel = 0
                if cur is not None and pos == ratio + 1:
                    rel = int(cur.get("rel") or 0) & 3
                in_reset = cur is not None and cur.get("rst") is not None and \
                    pos == int(cur["rst"]) % (ratio + 2)
                p.set(rst, int(in_reset))
                if cur is not None:
                    # rel: the transfer is over for the initiator the moment ack is visible
                    p.set(wb.cyc, 0 if rel in (1, 3) else 1)
                    p.set(wb.stb, 0 if rel in (1, 2) else 1)
                    if rel:
                        stats.fault("release_in_ack_cycle")
                    if waw:
                        p.set(wb.adr, cur["adr"])
                    p.set(wb.we, cur["we"])
                    p.set(wb.sel, cur["sel"])
                    p.set(wb.dat_w, cur["dat"])
                else:
                    # idle gap: stb low (or stb alone without cyc), everything else may churn
                    g = gap_op or {}
                    churn = mix(int(g.get("churn", 0)) + t)
                    stb_only = int(g.get("gap_stb_only", 0)) & 1
                    cyc = 0 if stb_only else int((int(g.get("gap_cyc", 0)) + t) % 4 != 0)
                    p.set(wb.cyc, cyc)
                    p.set(wb.stb, stb_only)
                    if waw:
                        p.set(wb.adr, churn & ((1 << waw) - 1))
                    p.set(wb.we, (churn >> 20) & 1)
                    p.set(wb.sel, (churn >> 24) & ((1 << ratio) - 1))
                    p.set(wb.dat_w, mix(churn) & ((1 << ww) - 1))
                    stats.fault("idle_signal_churn")
                    if stb_only:
                        stats.fault("stb_without_cyc")
                    elif cyc:
                        stats.fault("cyc_without_stb")
                    gap -= 1
                # ---- stub CSR target: answer the previous read strobe -----------------------
                p.set(cbus.r_data, pend_r if pend_r is not None else 0)
                # ---- observe ----------------------------------------------------------------
                ack = p.get(wb.ack)
                rs, ws = p.get(cbus.r_stb), p.get(cbus.w_stb)
                ca, cwd = p.get(cbus.addr), p.get(cbus.w_data)
                exp_rs = exp_ws = 0
                if cur is not None and pos is not None and pos < ratio:
                    k = pos
                    if (cur["sel"] >> k) & 1:
                        if cur["we"]:
                            exp_ws = 1
                        else:
                            exp_rs = 1
                    exp_addr = (cur["adr"] * ratio + k) & ((1 << caw) - 1)
                    if rs or ws:
                        stats.checks += 1
                        if ca != exp_addr:
                            raise Violation("C10", "csr-address-wrong", t,
                                            f"granule {k}: csr addr {ca:#x} expected {exp_addr:#x}")
                    if ws:
                        stats.checks += 1
                        if cwd != (cur["dat"] >> (k * cw)) & cmask:
                            raise Violation("C10", "csr-write-data-wrong-lane", t,
                                            f"granule {k}: w_data {cwd:#x} expected "
                                            f"{(cur['dat'] >> (k * cw)) & cmask:#x}")
                stats.checks += 2
                if rs != exp_rs or ws != exp_ws:
                    cls = "csr-strobe-outside-transfer" if cur is None else \
                        ("csr-strobe-missing" if (exp_rs or exp_ws) and not (rs or ws)
                         else "csr-strobe-unexpected")
                    raise Violation("C10", cls, t,
                                    f"r_stb={rs} w_stb={ws} expected {exp_rs}/{exp_ws} "
                                    f"(sequencer position {pos}, ratio {ratio})")
                exp_ack = 1 if (cur is not None and pos == ratio + 1) else 0
                stats.checks += 1
                if ack != exp_ack:
                    cls = "ack-late-or-missing" if exp_ack else \
                        ("ack-outside-transfer" if cur is None else "ack-early-or-repeated")
                    raise Violation("C10", cls, t,
                                    f"ack={ack} expected {exp_ack} at position {pos} "
                                    f"(ratio {ratio}: ack is due {ratio + 1} cycles after start)")
                if ack and cur is not None and not cur["we"]:
                    d = p.get(wb.dat_r)
                    for k, v in sorted(lanes.items()):
                        stats.checks += 1
                        if (d >> (k * cw)) & cmask != v:
                            raise Violation("C10", "read-data-wrong-lane", t,
                                            f"lane {k} of dat_r={d:#x} expected {v:#x}")
                stats.state("sequencer(ratio,pos,stb,b2b)",
                            f"({ratio},{pos},{int(cur is not None)},{b2b})")
                hist.rec(t, ack, rs, ws, ca, cwd)
                # ---- advance stub / model / agent -------------------------------------------
                if rs:
                    rd = (cur or {}).get("rd") or []
                    k = pos if pos is not None else 0
                    pend_r = (int(rd[k]) if k < len(rd) else (mix(t) | 1)) & cmask
                    lanes[k] = pend_r
                else:
                    pend_r = None
                if in_reset:
                    # the domain (bridge, initiator and CSR target alike) is reset at this edge:
                    # the transfer is abandoned and everything restarts as from power-up
                    stats.fault("domain_reset_mid_transfer")
                    gap = min(int(cur.get("gap", 0)), 4)
                    gap_op = cur
                    cur = None
                    pos = None
                    pend_r = None
                    b2b = 0
                elif cur is not None:
                    if ack:
                        acks_for_cur += 1
                        stats.work += 1
                        gap = int(cur.get("gap", 0))
                        gap = gap if gap >= 200 else min(gap, 4)
                        if gap >= 200:
                            stats.fault("long_idle_spell")
                        gap_op = cur
                        if gap == 0:
                            stats.fault("back_to_back")
                            b2b = 1
                        else:
                            stats.fault("spaced")
                            b2b = 0
                        cur = None
                        pos = None
                    else:
                        pos += 1
                        if pos > ratio + 1:
                            raise Violation("C10", "ack-late-or-missing", t,
                                            f"no ack {ratio + 1} cycles after start")
                t += 1
                await ctx.tick()
            stats.cycles += t

        hw.run_tb(sim, tb)

    def simplify_op(self, op):
        if op.get("gap"):
            yield dict(op, gap=0)
        if op.get("gap_stb_only"):
            yield dict(op, gap_stb_only=0)
        if op.get("rel"):
            yield dict(op, rel=0)
        if op.get("rst") is not None:
            yield dict(op, rst=None)
        if op.get("dat") not in (0, 1, None):
            yield dict(op, dat=1)
        if op.get("adr"):
            yield dict(op, adr=0)

    def shrink_config(self, config, ops):
        if config["caw"] > 3:
            yield dict(config, caw=config["caw"] - 1), ops

    def sample(self, config, ops):
        return {"config": config, "first_ops": ops[:4], "n_ops": len(ops)}


WORLD = Wb2CsrWorld()
