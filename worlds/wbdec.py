"""World `wbdec` — C07: wishbone.Decoder selects one subordinate and relays only its responses.

System: the real wishbone.Decoder with 0-5 stub subordinate interfaces (dense windows at equal
granularity with every admissible feature subset, and sparse windows). Request agent: arbitrary
request signals every cycle. Target agents: respond (ack/err/rty/stall in any combination) only
while they see cyc and stb, and drive garbage dat_r always."""
from simkit.rng import mix
from simkit.core import World, Violation, Refused
from simkit import hw

FEATS = ["err", "rty", "stall", "lock", "cti", "bte"]
CTI_VALUES = [0, 1, 2, 7]


def log2(x):
    return x.bit_length() - 1


class WbDecWorld(World):
    name = "wbdec"
    properties = ("C07",)
    real_components = ("wishbone.Decoder", "memory.MemoryMap (window placement, patterns)")
    stub_components = ("subordinate Wishbone targets (seeded agents on bare wishbone.Interface)",
                       "requesting initiator (seeded byzantine agent)")
    fault_kinds = ("byzantine_request", "garbage_dat_r_unselected", "multi_response",
                   "err_response", "rty_response", "stall_response", "nobody_selected_with_cyc",
                   "stb_without_cyc", "rejected_re_add", "rejected_invalid_add", "refused_bus_responds", "rejected_add_of_interface_sharing_the_map", "memory_map_assigned_through_setter",
                   "second_instance_in_process", "queried_or_elaborated_while_being_populated")
    assumptions = (
        "Amaranth's Python RTL simulator executes the elaborated netlist faithfully",
        "subordinates respond only while they see cyc and stb (as the property assumes)",
        "a window 'contains' a bus word when it lies in the window's own 2^addr_width span; "
        "addresses in alignment padding of the reported range are don't-care for selection",
        "dense windows onto finer-granularity subordinates (known finding F5), sparse windows "
        "smaller than one decoder word and addr_width=0 decoders (F6, C19) are not generated",
    )

    def runs(self, prop, tier):
        return {"quick": 6000, "thorough": 80000}[tier]

    def gen_config(self, rng, prop):
        dw = rng.choice([8, 16, 32, 64])
        g = rng.choice([x for x in (8, 16, 32, 64) if x <= dw])
        gb = log2(dw // g)
        aw = rng.range(1, 7) if not rng.chance(0.1) else rng.range(8, 10)
        if rng.chance(0.04):
            aw = 0
        feats = rng.subset(FEATS)
        al = rng.choice([0, 0, 1, 2, 3])
        mmaw = max(1, aw + gb)
        subs = []
        for i in range(rng.range(0, 5) if not rng.chance(0.1) else rng.range(6, 8)):
            sparse = rng.chance(0.3)
            if sparse:
                sdw = rng.choice([x for x in (8, 16, 32, 64) if x <= g])
                sg = sdw
                saw = rng.range(gb, max(gb, mmaw - 1))
            else:
                sdw, sg = dw, g
                saw = rng.range(0, max(0, aw - 1)) if not rng.chance(0.06) else aw
            smaw = max(1, saw + (0 if sparse else gb))
            sf = rng.subset([f for f in FEATS if f in feats or f in ("lock", "cti", "bte")])
            if rng.chance(0.03):
                sf = rng.subset(FEATS)      # may be refused (optional output without input)
            addr = None
            if rng.chance(0.35):
                addr = (rng.below(1 << mmaw) >> smaw) << smaw
            subs.append({"sparse": sparse, "dw": sdw, "g": sg, "aw": saw, "feats": sorted(sf),
                         "name": None if rng.chance(0.5) else f"w{i}", "addr": addr,
                         "align_to": rng.range(0, 4) if rng.chance(0.15) else None,
                         "readd": int(rng.chance(0.08)), "shadowed": int(rng.chance(0.06)),
                         # the subordinate's own map may be created with an alignment
                         "sal": rng.range(1, 3) if rng.chance(0.15) else 0})
        return {"aw": aw, "dw": dw, "g": g, "feats": sorted(feats), "al": al, "subs": subs,
                "feats_as": rng.choice(["str", "str", "enum", "frozenset", "list", "tuple"]),
                "omit": int(rng.chance(0.3)),
                "bad_add": rng.choice(["gran_greater", "dense_dw", "sparse_dw", "not_interface"])
                if rng.chance(0.15) else None,
                "own_map": int(rng.chance(0.08)), "twin_decoder": int(rng.chance(0.1)),
                "mid": rng.below(3) if rng.chance(0.12) else None,
                "mid_how": rng.choice(["elab", "patterns"])}

    def gen_ops(self, rng, config, prop):
        ops = []
        aw, dw, g = config["aw"], config["dw"], config["g"]
        ns = len(config["subs"])
        p_cyc = rng.choice([0.5, 0.8, 0.95])
        for t in range(rng.range(40, 100)):
            ops.append({"adr": rng.bits(aw), "near": rng.below(max(1, ns) * 4) if rng.chance(0.5)
                        else None, "cyc": int(rng.chance(p_cyc)), "stb": rng.below(2),
                        "we": rng.below(2), "sel": rng.bits(dw // g), "dat_w": rng.bits(dw),
                        "lock": rng.below(2), "cti": rng.choice(CTI_VALUES), "bte": rng.below(4),
                        "resp": [[rng.below(2), rng.below(2), rng.below(2), rng.below(2),
                                  rng.bits(64)] for _ in range(ns)]})
        return ops

    def run_f5(self, stats, hist):
        """Known finding F5 reproduced against the real code: dense window, same data width,
        finer granularity on the subordinate."""
        from amaranth_soc import wishbone
        from amaranth_soc.memory import MemoryMap
        dut = wishbone.Decoder(addr_width=4, data_width=32, granularity=32)
        sb = wishbone.Interface(addr_width=2, data_width=32, granularity=8, path=("s0",))
        sb.memory_map = MemoryMap(addr_width=4, data_width=8, alignment=2)
        try:
            s, e, r = dut.add(sb, addr=4)
        except (ValueError, TypeError):
            return      # refusing such windows would also resolve the finding
        sim = hw.build_sim(hw.make_top(dut))
        b = dut.bus

        async def tb(ctx):
            p = hw.Pins(ctx)
            for adr in range(16):
                p.set(b.adr, adr)
                p.set(b.cyc, 1)
                p.set(b.stb, 1)
                inside = s <= adr < e
                stats.checks += 1
                hist.rec(adr, p.get(sb.cyc), p.get(sb.adr))
                if p.get(sb.cyc) != int(inside) or (inside and p.get(sb.adr) != adr - s):
                    raise Violation("C07", "F5-dense-window-onto-finer-granularity", adr,
                                    f"window [{s},{e}) ratio {r}: bus.adr={adr} -> sub.cyc="
                                    f"{p.get(sb.cyc)} sub.adr={p.get(sb.adr)}; expected cyc="
                                    f"{int(inside)} adr={adr - s if inside else '-'}",
                                    key="F5:dense-window-finer-granularity")
                await ctx.tick()
            stats.cycles += 16
        hw.run_tb(sim, tb)

    def run(self, config, ops, props, stats, hist):
        from amaranth_soc import wishbone
        from amaranth_soc.memory import MemoryMap
        if config.get("f5"):
            return self.run_f5(stats, hist)
        aw, dw, g = config["aw"], config["dw"], config["g"]
        gb = log2(dw // g)
        feats = set(config["feats"])
        spell = hw.feature_speller(config.get("feats_as"))
        dut = hw.must_accept("C07", f"wishbone.Decoder(addr_width={aw}, data_width={dw}, "
                             f"granularity={g}, features={sorted(feats)}, alignment={config['al']})",
                             wishbone.Decoder,
                             **hw.spelled(config.get("omit"),
                                          {"alignment": 0, "features": set(), "granularity": dw},
                                          addr_width=aw, data_width=dw, granularity=g,
                                          features=spell(feats), alignment=config["al"]))
        if config.get("own_map"):
            # rarely used public setter: the user supplies the decoder's memory map
            dut.bus.memory_map = MemoryMap(addr_width=max(1, aw + gb), data_width=g,
                                           alignment=config["al"])
            stats.fault("memory_map_assigned_through_setter")
        twin = None
        if config.get("twin_decoder"):
            twin = wishbone.Decoder(addr_width=aw, data_width=dw, granularity=g,
                                    features=spell(feats), alignment=config["al"])
            stats.fault("second_instance_in_process")
        subs = []
        ghosts = []
        for i, sc in enumerate(config["subs"]):
            sb = None
            if config.get("mid") is not None and i == config["mid"] + 1:
                if config.get("mid_how") == "patterns":
                    list(dut.bus.memory_map.window_patterns())
                else:
                    hw.elaborate_once(dut)
                stats.fault("queried_or_elaborated_while_being_populated")
            try:
                sb = wishbone.Interface(addr_width=sc["aw"], data_width=sc["dw"],
                                        granularity=sc["g"], features=spell(sc["feats"]),
                                        path=(f"s{i}",))
                smaw = max(1, sc["aw"] + log2(sc["dw"] // sc["g"]))
                sb.memory_map = MemoryMap(addr_width=smaw, data_width=sc["g"],
                                          alignment=int(sc.get("sal") or 0))
                if sc.get("sal"):
                    stats.probe("subordinate_map_with_alignment")
                if sc.get("align_to") is not None:
                    dut.align_to(sc["align_to"])
                if sc.get("shadowed"):
                    # another interface that carries the very same memory map (e.g. the second
                    # port of the peripheral) is offered first, at an impossible address: refused
                    sb0 = wishbone.Interface(addr_width=sc["aw"], data_width=sc["dw"],
                                             granularity=sc["g"], features=spell(sc["feats"]),
                                             path=(f"z{i}",))
                    sb0.memory_map = sb.memory_map
                    try:
                        dut.add(sb0, name=f"z{i}", sparse=sc["sparse"],
                                addr=(1 << max(1, aw + gb)) - (1 << smaw) + (1 << smaw))
                        raise Violation("C07", "out-of-range-window-accepted", 0, "")
                    except (ValueError, TypeError):
                        stats.fault("rejected_add_of_interface_sharing_the_map")
                        ghosts.append(sb0)
                kw = {}
                if sc.get("addr") is not None:
                    kw["addr"] = sc["addr"]
                s, e, r = dut.add(sb, name=sc.get("name"), sparse=sc["sparse"], **kw)
            except (ValueError, TypeError):
                stats.probe("window_refused")
                if "sb" in dir() and sb is not None and hasattr(sb, "ack"):
                    ghosts.append(sb)      # refused: not a subordinate, whatever it does
                continue
            if not sc["sparse"] and sc["g"] != g:
                raise Refused("dense finer-granularity window is outside C07's domain")
            subs.append({"bus": sb, "start": s, "own_end": s + (1 << smaw), "rep_end": e,
                         "sparse": sc["sparse"], "feats": set(sc["feats"]), "idx": i})
            if twin is not None:
                # e.g. the second port of a dual-port memory: another interface, the same map
                sb2 = wishbone.Interface(addr_width=sc["aw"], data_width=sc["dw"],
                                         granularity=sc["g"], features=spell(sc["feats"]),
                                         path=(f"t{i}",))
                sb2.memory_map = sb.memory_map
                try:
                    twin.add(sb2, name=sc.get("name"), sparse=sc["sparse"],
                             **({"addr": sc["addr"]} if sc.get("addr") is not None else {}))
                except ValueError:
                    pass
            if sc.get("readd"):
                try:
                    dut.add(sb, name=f"again{i}", sparse=sc["sparse"])
                    raise Violation("C07", "duplicate-subordinate-accepted", 0, "")
                except ValueError:
                    stats.fault("rejected_re_add")
        if config.get("bad_add"):
            # fault: an add() the decoder has to refuse (and survive unchanged)
            kind = config["bad_add"]
            bad = None
            kw = {}
            if kind == "gran_greater" and 2 * g <= 64:
                bad = wishbone.Interface(addr_width=1, data_width=max(dw, 2 * g), granularity=2 * g)
                bad.memory_map = MemoryMap(addr_width=1 + log2(max(dw, 2 * g) // (2 * g)),
                                           data_width=2 * g)
            elif kind == "dense_dw":
                odw = dw // 2 if dw // 2 >= 8 else dw * 2
                og = min(g, odw)
                bad = wishbone.Interface(addr_width=1, data_width=odw, granularity=og)
                bad.memory_map = MemoryMap(addr_width=1 + log2(odw // og), data_width=og)
            elif kind == "sparse_dw":
                bad = wishbone.Interface(addr_width=1, data_width=16, granularity=8)
                bad.memory_map = MemoryMap(addr_width=2, data_width=8)
                kw["sparse"] = True
            elif kind == "not_interface":
                bad = object()
            if bad is not None:
                try:
                    dut.add(bad, name="bad", **kw)
                    raise Violation("C07", "invalid-subordinate-accepted", 0,
                                    f"add() accepted a subordinate it must refuse ({kind})",
                                    key=f"invalid-subordinate-accepted:{kind}")
                except (ValueError, TypeError):
                    stats.fault("rejected_invalid_add")
        sim = hw.build_sim(hw.make_top(dut))
        b = dut.bus
        amask = (1 << aw) - 1

        async def tb(ctx):
            p = hw.Pins(ctx)
            for t, op in enumerate(ops):
                adr = int(op.get("adr", 0)) & amask
                near = op.get("near")
                if near is not None and subs:
                    # bias towards window edges: first / last word of some window, or just outside
                    sb_ = subs[(near // 4) % len(subs)]
                    first = sb_["start"] >> gb
                    last = max(first, ((sb_["own_end"] - 1) >> gb))
                    adr = [first, last, (first - 1) & amask, (last + 1) & amask][near % 4] & amask
                req = dict(cyc=int(op.get("cyc", 0)) & 1, stb=int(op.get("stb", 0)) & 1,
                           we=int(op.get("we", 0)) & 1,
                           sel=int(op.get("sel", 0)) & ((1 << (dw // g)) - 1),
                           dat_w=int(op.get("dat_w", 0)) & ((1 << dw) - 1))
                p.set(b.adr, adr)
                for k, v in req.items():
                    p.set(getattr(b, k), v)
                opt = {}
                if "lock" in feats:
                    opt["lock"] = int(op.get("lock", 0)) & 1
                    p.set(b.lock, opt["lock"])
                if "cti" in feats:
                    c = op.get("cti", 0)
                    opt["cti"] = c if c in CTI_VALUES else 0
                    p.set(b.cti, opt["cti"])
                if "bte" in feats:
                    opt["bte"] = int(op.get("bte", 0)) & 3
                    p.set(b.bte, opt["bte"])
                # a bus whose add() was refused is not part of the decoder: it may respond as it
                # likes (it may be attached elsewhere) without anything showing upstream
                for gi, gb_ in enumerate(ghosts):
                    gv = mix(int(op.get("dat_w", 0)) * 31 + gi + t)
                    p.set(gb_.ack, gv & 1)
                    p.set(gb_.dat_r, (gv >> 8) & ((1 << len(gb_.dat_r)) - 1))
                    for bit, nm in enumerate(("err", "rty", "stall"), 1):
                        if hasattr(gb_, nm):
                            p.set(getattr(gb_, nm), (gv >> bit) & 1)
                    stats.fault("refused_bus_responds")
                stats.fault("byzantine_request")
                if req["stb"] and not req["cyc"]:
                    stats.fault("stb_without_cyc")
                gaddr = adr << gb
                sel_sub = None
                in_padding = False
                for sbd in subs:
                    if sbd["start"] <= gaddr < sbd["own_end"]:
                        sel_sub = sbd
                    elif sbd["start"] <= gaddr < sbd["rep_end"]:
                        in_padding = True
                rv = op.get("resp") or []
                resp = {}
                for j, sbd in enumerate(subs):
                    v = list(rv[sbd["idx"]]) if sbd["idx"] < len(rv) else [0, 0, 0, 0, 0]
                    v += [0] * (5 - len(v))
                    sbd["_v"] = v
                    p.set(sbd["bus"].dat_r, int(v[4]) & ((1 << sbd["bus"].data_width) - 1))
                    if sbd is not sel_sub:
                        stats.fault("garbage_dat_r_unselected")
                for sbd in subs:
                    sb = sbd["bus"]
                    v = sbd["_v"]
                    active = p.get(sb.cyc) and p.get(sb.stb)
                    r = dict(ack=(v[0] & 1) if active else 0)
                    for fi, f in enumerate(("err", "rty", "stall")):
                        if f in sbd["feats"]:
                            r[f] = (v[1 + fi] & 1) if active else 0
                    for k, v_ in r.items():
                        p.set(getattr(sb, k), v_)
                    resp[sbd["idx"]] = r
                    if active:
                        if sum(r.values()) > 1:
                            stats.fault("multi_response")
                        if r.get("err"):
                            stats.fault("err_response")
                        if r.get("rty"):
                            stats.fault("rty_response")
                        if r.get("stall"):
                            stats.fault("stall_response")
                # ---- oracle ------------------------------------------------------------------
                with_cyc = [sbd for sbd in subs if p.get(sbd["bus"].cyc)]
                obs = [adr, [sbd["idx"] for sbd in with_cyc]]
                stats.checks += 1
                if len(with_cyc) > 1:
                    raise Violation("C07", "more-than-one-subordinate-sees-cyc", t,
                                    f"adr={adr:#x}: subordinates {[s_['idx'] for s_ in with_cyc]}")
                if not req["cyc"] and with_cyc:
                    raise Violation("C07", "cyc-without-bus-cyc", t,
                                    f"subordinate {with_cyc[0]['idx']} sees cyc while bus.cyc=0")
                if not in_padding:
                    exp = [sel_sub] if (sel_sub is not None and req["cyc"]) else []
                    stats.checks += 1
                    if [s_["idx"] for s_ in with_cyc] != [s_["idx"] for s_ in exp]:
                        raise Violation("C07", "wrong-subordinate-selected", t,
                                        f"adr={adr:#x} (granule {gaddr:#x}): cyc seen by "
                                        f"{[s_['idx'] for s_ in with_cyc]}, memory map selects "
                                        f"{[s_['idx'] for s_ in exp]}")
                    effective = sel_sub
                else:
                    stats.probe("address_in_alignment_padding")
                    effective = with_cyc[0] if with_cyc else None
                if effective is not None and req["cyc"]:
                    sb = effective["bus"]
                    sf = effective["feats"]
                    stats.work += 1
                    chk = [("stb", req["stb"]), ("we", req["we"])]
                    if not effective["sparse"]:
                        chk += [("dat_w", req["dat_w"]), ("sel", req["sel"])]
                        if len(sb.adr):
                            off = (gaddr - effective["start"]) >> gb
                            chk.append(("adr", off & ((1 << len(sb.adr)) - 1)))
                    if "lock" in sf:
                        chk.append(("lock", opt.get("lock", 0)))
                    if "cti" in sf:
                        chk.append(("cti", opt.get("cti", 0)))
                    if "bte" in sf:
                        chk.append(("bte", opt.get("bte", 0)))
                    for k, v in chk:
                        got = p.get(getattr(sb, k))
                        stats.checks += 1
                        if got != v:
                            cls = "window-offset-wrong" if k == "adr" else \
                                ("optional-signal-default-wrong" if k in ("lock", "cti", "bte")
                                 else "request-modified")
                            raise Violation("C07", cls, t,
                                            f"subordinate {effective['idx']}.{k}={got:#x} "
                                            f"expected {v:#x} (bus adr={adr:#x})")
                    r = resp[effective["idx"]]
                    ups = [("ack", r["ack"])]
                    for f in ("err", "rty", "stall"):
                        if f in feats:
                            ups.append((f, r.get(f, 0)))
                    for k, v in ups:
                        got = p.get(getattr(b, k))
                        obs.append(got)
                        stats.checks += 1
                        if got != v:
                            raise Violation("C07", "response-not-relayed", t,
                                            f"bus.{k}={got} but selected subordinate "
                                            f"{effective['idx']} drives {v}")
                    got = p.get(b.dat_r)
                    want = p.get(sb.dat_r)
                    if not effective["sparse"] and got != want:
                        raise Violation("C07", "read-data-not-relayed", t,
                                        f"bus.dat_r={got:#x} selected subordinate drives {want:#x}")
                    if effective["sparse"] and (got & ((1 << sb.data_width) - 1)) != want:
                        raise Violation("C07", "read-data-not-relayed", t,
                                        f"bus.dat_r={got:#x} sparse subordinate drives {want:#x}")
                    for f in ("err", "rty", "stall"):
                        if f in feats and f not in sf:
                            stats.probe(f"selected_subordinate_lacks_{f}")
                else:
                    for k in ["ack"] + [f for f in ("err", "rty", "stall") if f in feats]:
                        stats.checks += 1
                        if p.get(getattr(b, k)):
                            raise Violation("C07", "response-without-selection", t,
                                            f"bus.{k}=1 with nobody selected / cyc low "
                                            f"(adr={adr:#x} cyc={req['cyc']})")
                    if effective is None and not in_padding:
                        stats.checks += 1
                        if p.get(b.dat_r) != 0:
                            raise Violation("C07", "read-data-nonzero-nobody-selected", t,
                                            f"bus.dat_r={p.get(b.dat_r):#x} adr={adr:#x}")
                        if req["cyc"]:
                            stats.fault("nobody_selected_with_cyc")
                if sel_sub is not None:
                    if gaddr >> gb == sel_sub["start"] >> gb:
                        stats.probe("address_is_first_word_of_window")
                    if gaddr >> gb == (sel_sub["own_end"] - 1) >> gb:
                        stats.probe("address_is_last_word_of_window")
                    if sel_sub["sparse"]:
                        stats.probe("sparse_window_selected")
                stats.state("decoder features", ",".join(sorted(feats)))
                hist.rec(t, obs)
                await ctx.tick()
            stats.cycles += len(ops)

        hw.run_tb(sim, tb)

    def simplify_op(self, op):
        if op.get("near") is not None:
            return
        for k in ("dat_w", "sel", "lock", "cti", "bte", "we"):
            if op.get(k):
                yield dict(op, **{k: 0})

    def shrink_config(self, config, ops):
        subs = config["subs"]
        for j in range(len(subs)):
            o = []
            for op in ops:
                rv = list(op.get("resp") or [])
                o.append(dict(op, resp=rv[:j] + rv[j + 1:]))
            yield dict(config, subs=subs[:j] + subs[j + 1:]), o
        for f in config["feats"]:
            c = dict(config, feats=[x for x in config["feats"] if x != f],
                     subs=[dict(s, feats=[x for x in s["feats"] if x != f]) for s in subs])
            yield c, ops
        if config["al"]:
            yield dict(config, al=0), ops
        for j, s in enumerate(subs):
            for f in s["feats"]:
                yield dict(config, subs=subs[:j] + [dict(s, feats=[x for x in s["feats"] if x != f])]
                           + subs[j + 1:]), ops

    def sample(self, config, ops):
        return {"config": config, "first_ops": ops[:2], "n_ops": len(ops)}

    def fixed_scenarios(self, prop):
        # F5: dense window onto a finer-granularity subordinate (outside C07's domain by the
        # property text; reproduced here so that the finding stays visible while it persists)
        return [("F5-dense-window-finer-granularity", {"f5": True}, [])]


WORLD = WbDecWorld()
